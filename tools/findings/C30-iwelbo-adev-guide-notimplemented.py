"""C30: IWELBO cannot be used with any guide built from the vi.* ADEV distributions: ImportanceK vmaps
guide.random_weighted and the batching rule of ADEV's sample primitive is `raise NotImplementedError`
(adev/core.py:159-163)."""
import jax, genjax
from genjax import ChoiceMapBuilder as C

@genjax.gen
def model(v):
    mu = genjax.normal(0.0, 10.0) @ "mu"
    _ = genjax.normal(mu, 0.1) @ "v"

@genjax.marginal()
@genjax.gen
def guide(target):
    (v,) = target.args
    _ = genjax.vi.normal_reparam(v, 0.1) @ "mu"

grad = genjax.vi.IWELBO(guide, lambda v: genjax.Target(model, (v,), C["v"].set(3.0)), 2)
print(grad(jax.random.key(0), (0.1,)))  # NotImplementedError
