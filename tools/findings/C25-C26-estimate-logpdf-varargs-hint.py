"""C25/C26: `*args: tuple[Any, ...]` on Marginal.estimate_logpdf (sp.py:244) and SMCAlgorithm.estimate_logpdf
(smc.py:185) makes beartype demand that EVERY positional argument is a tuple: a scalar model argument or a Target
is rejected, so SMCAlgorithm.estimate_logpdf(key, v, target) can never be called, nor can a Marginal be used as
proposal in run_csmc, nor Distribution.assess/importance on these objects.  Fix: `*args: Any` (as in random_weighted)."""
import jax, genjax
from genjax import ChoiceMapBuilder as C
from genjax.inference.smc import Importance

@genjax.gen
def model(p):
    x = genjax.flip(p) @ "x"
    y = genjax.flip(0.7) @ "y"

key = jax.random.key(0)
for label, call in [
    ("Marginal.estimate_logpdf(key, v, 0.3)", lambda: model.marginal().estimate_logpdf(key, C["x"].set(True) | C["y"].set(True), 0.3)),
    ("Importance.estimate_logpdf(key, v, target)", lambda: (lambda t: Importance(t).estimate_logpdf(key, C["x"].set(True), t))(genjax.Target(model, (0.3,), C["y"].set(True)))),
]:
    try:
        print(label, "->", call())
    except TypeError as e:
        print(label, "-> TypeError (beartype):", "violates type hint" in str(e) and "tuple[typing.Any, ...]" in str(e))
