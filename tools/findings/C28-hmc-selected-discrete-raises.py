"""C28 (second, independent): HMC raises when the selection contains a choice that is not a
float32 array (a flip/categorical, or a Python-float value in an eagerly built trace), although the
request has explicit code to keep such choices fixed ("moves only the selected continuous choices").
hmc.py:63 grad_tree_zip does jtu.tree_map over two trees that hold None in complementary
positions; current JAX no longer treats None as a prefix of a leaf -> ValueError
"Expected None, got ...".  (Needs `is_leaf=lambda x: x is None` in grad_tree_zip / selection_gradient
and momenta only for the differentiable leaves - not a one-token fix.)
Run: /venv/bin/python tools/findings/C28-hmc-selected-discrete-raises.py
"""
import jax
import jax.numpy as jnp
from genjax import ChoiceMap, Selection, flip, gen, normal
from genjax.inference.requests import HMC


@gen
def model():
    b = flip(0.4) @ "b"
    return normal(jnp.where(b, 1.0, -1.0), 0.7) @ "x"


key = jax.random.key(0)
tr, _ = model.importance(key, ChoiceMap.kw(b=jnp.array(True), x=jnp.array(0.2)), ())
ok = jax.jit(HMC(Selection.at["x"], jnp.array(0.1), 2).edit)(key, tr, ())
print("selection {x}: fine, x ->", float(ok[0].get_choices()["x"]))
try:
    jax.jit(HMC(Selection.all(), jnp.array(0.1), 2).edit)(key, tr, ())
    print("selection all: fine")
except Exception as e:
    print("selection all (contains the flip b): raised", type(e).__name__, str(e)[:60])
