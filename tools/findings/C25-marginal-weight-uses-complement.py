"""C25: Marginal.random_weighted (no algorithm) returns project(~selection) instead of project(selection).
sp.py:227  `bwd_request = ~self.selection`  ->  the weight is the density of the UNSELECTED choices.
Everything selected => weight 0 instead of the joint log-density; estimate_logpdf of the same sample disagrees."""
import jax, jax.numpy as jnp, genjax
from genjax import SelectionBuilder as S

@genjax.gen
def model():
    a = genjax.flip(0.3) @ "a"
    b = genjax.flip(jnp.where(a, 0.8, 0.25)) @ "b"

key = jax.random.key(0)
for name, sel in [("all", genjax.Selection.all()), ("a", S["a"])]:
    m = model.marginal(selection=sel)
    w, s = m.random_weighted(key)
    print(name, "sample a =", s["a"], " weight =", float(w), " estimate_logpdf(sample) =", float(m.estimate_logpdf(key, s)))
# expected: weight == estimate_logpdf (all: log p(a,b); a: log p(a) in {log .3, log .7});  actual: all -> 0.0, a -> log p(b|a)
