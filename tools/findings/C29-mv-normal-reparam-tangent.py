"""C29: MvNormalREPARAM.before_tail_call reads the tangents from the primals (primitives.py:353:
`(mu_tangent, cov_tangent) = Dual.tree_primal(dual_tree)`), so the tangent is J.(mu, cov) instead of
J.(dmu, dcov); grad_estimate (its transpose) disagrees with jvp_estimate as well.
Minimal fix: Dual.tree_tangent(dual_tree)."""
import jax, jax.numpy as jnp
from genjax.adev import Dual, expectation, mv_normal_reparam

@expectation
def f(theta):
    x = mv_normal_reparam(jnp.array([theta, 5.0]), jnp.eye(2))
    return x[0]  # = theta + eps0: pathwise derivative is exactly 1

key = jax.random.key(0)
print("jvp tangent (expected 1.0):", f.jvp_estimate(key, Dual(0.3, 1.0)).tangent)   # 0.3
print("grad        (expected 1.0):", f.grad_estimate(key, (0.3,)))
