"""C33 (root cause in the static language, cf. C22): invalid_subset raises for a model that uses a
plain string address and a tuple address side by side.

StaticTrace keeps its sub-traces in a dict keyed by the *raw* addresses ("x" and ("u","v")).  As soon
as the trace crosses a JAX boundary (jit, eval_shape - get_zero_trace uses eval_shape) the dict keys
must be sorted and `"x" < ("u","v")` raises.  simulate works eagerly; jit(simulate), get_zero_trace
and therefore ChoiceMap.invalid_subset raise
ValueError("Comparator raised exception while sorting pytree dictionary keys.").
Run: /venv/bin/python C33-str-and-tuple-address-zero-trace.py   (exit 1 = defect present)
"""
import sys
import jax
import genjax
from genjax import ChoiceMap


@genjax.gen
def model(x):
    v = genjax.normal(x, 1.0) @ "x"
    return genjax.normal(v, 1.0) @ ("u", "v")


print("eager simulate ok:", model.simulate(jax.random.key(0), (0.0,)).get_choices())
try:
    print(ChoiceMap.kw(x=1.0).invalid_subset(model, (0.0,)))
except Exception as e:  # noqa: BLE001
    print("invalid_subset raises", type(e).__name__, e)
    sys.exit(1)
