"""C25: Marginal(gen_fn, selection, algorithm=Importance(...)).random_weighted does not return a density estimate.
Everything is selected below, so nothing is random in the weight and it must be log p(a,b) of the returned sample;
it equals it only when the sample happens to equal the placeholder values of the algorithm's initial target
(ChangeTarget.run_csmc_for_normalizing_constant uses the score under the *previous* target and `w` inconsistently)."""
import math, jax, jax.numpy as jnp, genjax
from genjax import ChoiceMapBuilder as C
from genjax.inference.smc import Importance

@genjax.gen
def model():
    a = genjax.flip(0.3) @ "a"
    b = genjax.flip(jnp.where(a, 0.8, 0.25)) @ "b"

exact = {(True, True): 0.24, (True, False): 0.06, (False, True): 0.175, (False, False): 0.525}
alg = Importance(genjax.Target(model, (), C["a"].set(True) | C["b"].set(True)))  # same address structure as Marginal's target
m = model.marginal(algorithm=alg)
for i in range(6):
    w, s = m.random_weighted(jax.random.key(i))
    k = (bool(s["a"]), bool(s["b"]))
    print(k, "weight", round(float(w), 4), "log p(sample)", round(math.log(exact[k]), 4))
