"""C27: Rejuvenate computes the backward proposal arguments from the discard (the OLD choices),
not from the new trace, so the returned weight is  log p(x')/p(x) + log q(x | x) - log q(x' | x)
instead of the MH ratio  log p(x')/p(x) + log q(x | x') - log q(x' | x).
(rejuvenate.py:86  `bwd_proposal_args = self.argument_mapping(bwd_chm)`; minimal fix:
 `self.argument_mapping(new_tr.get_choices())`.)  A symmetric random walk must give
weight == log p(x') - log p(x); a proposal whose arguments read an address it does not propose
cannot run at all (the discard does not contain that address).
Run: /venv/bin/python tools/findings/C27-rejuvenate-backward-args-from-discard.py
"""
import jax
import genjax
from genjax import ChoiceMap as C, gen, normal
from genjax.inference.requests import Rejuvenate


@gen
def model():
    return normal(0.0, 1.0) @ "x"


@gen
def walk(x):  # symmetric random walk: q(x'|x) == q(x|x')
    return normal(x, 0.5) @ "x"


key = jax.random.key(0)
tr, _ = model.importance(key, C.kw(x=0.3), ())
new_tr, w, _, _ = Rejuvenate(walk, lambda chm: (chm["x"],)).edit(key, tr, ())
print("weight returned        :", float(w))
print("log p(x') - log p(x)   :", float(new_tr.get_score() - tr.get_score()), "(MH ratio of a symmetric walk)")
