"""C30: QWake always raises: it calls proposal.estimate_logpdf(key, sample, target) but
Marginal.estimate_logpdf (sp.py:240-245) and SMCAlgorithm.estimate_logpdf (smc.py) annotate
`*args: tuple[Any, ...]`, i.e. every extra argument must itself be a tuple; a Target is rejected.
Minimal fix: `*args: Any`."""
import jax, genjax
from genjax import ChoiceMapBuilder as C

@genjax.gen
def model(b):
    x = genjax.flip(0.4) @ "x"
    _ = genjax.flip(0.7) @ "y"

@genjax.marginal()
@genjax.gen
def proposal(target):
    (b,) = target.args
    _ = genjax.vi.flip_enum(b) @ "x"

@genjax.marginal()
@genjax.gen
def posterior_approx(target):
    _ = genjax.flip(0.35) @ "x"

grad = genjax.vi.QWake(proposal, posterior_approx, lambda b: genjax.Target(model, (b,), C["y"].set(True)))
print(grad(jax.random.key(0), (0.3,)))  # TypeError; expected d/db -[0.35 log b + 0.65 log(1-b)]
