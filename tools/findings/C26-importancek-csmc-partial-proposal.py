"""C26: ImportanceK.run_csmc with a proposal that covers only part of the latents (documented for Importance: "choices
not in q are sampled from the internal proposal") raises: tree_map(stack_to_first_dim, choices, retained) zips the
proposal's choice map with the (necessarily larger) retained choice map."""
import jax, jax.numpy as jnp, genjax
from genjax import ChoiceMapBuilder as C, Pytree
from genjax.inference.smc import ImportanceK
from genjax._src.generative_functions.distributions.distribution import Distribution

@genjax.gen
def model():
    a = genjax.flip(0.4) @ "a"
    b = genjax.flip(jnp.where(a, 0.7, 0.2)) @ "b"
    y = genjax.flip(jnp.where(a & b, 0.9, 0.3)) @ "y"

@genjax.gen
def guide(target):
    a = genjax.flip(0.6) @ "a"

@Pytree.dataclass
class Exact(Distribution):
    g: genjax.GenerativeFunction
    def random_weighted(self, key, *args):
        tr = self.g.simulate(key, args)
        return tr.get_score(), tr.get_choices()
    def estimate_logpdf(self, key, v, *args):
        return self.g.assess(v, args)[0]

target = genjax.Target(model, (), C["y"].set(True))
alg = ImportanceK(target, Exact(guide), 2)
print("run_smc ok:", alg.run_smc(jax.random.key(0)).get_log_weights())
try:
    alg.run_csmc(jax.random.key(0), C["a"].set(True) | C["b"].set(False))
except ValueError as e:
    print("run_csmc ValueError:", str(e)[:90])
