"""C29: Expectation.estimate passes a tree of 0.0 tangents as the dual tree (core.py:476-478) -> TypeError
(and without the type check it would evaluate the program at 0.0 instead of at `args`).
Minimal fix:  return self.jvp_estimate(key, Dual.tree_pure(args)).primal"""
import jax
from genjax.adev import expectation, flip_enum

@expectation
def f(p):
    return jax.lax.cond(flip_enum(p), lambda: 1.0, lambda: 3.0)

print("expected 2.4")
print(f.estimate(jax.random.key(0), (0.3,)))  # raises TypeError (DualTree check)
