"""C37: forward_filtering_backward_sampling applies the transition matrix TRANSPOSED in its forward pass
(discrete_hmm.py, t_branch:  logsumexp(prev + transition_n, axis=-1)  computes  sum_j prev[j] * P(j | i)
instead of  sum_j prev[j] * P(i | j)).  Invisible while the circulant transition tensor is symmetric
(2 * adjacency_distance_trans <= N); for 2 * k_trans > N (e.g. N=3, k_trans=2, sigma_trans=0.5) the forward
filters, hence the distribution of DiscreteHMM.random_weighted's samples, are not the posterior, while
estimate_logpdf / data_logpdf / latent_marginals (TFP's HiddenMarkovModel) stay exact, so the returned
weight is the exact density of a sample that was NOT drawn from it.
One-line fix:  `prev + transition_n.T`  (or  logsumexp(prev.reshape(-1, 1) + transition_n, axis=0)).
Deterministic demonstration: the last forward filter must equal the posterior marginal of the last state.
Run: /venv/bin/python tools/findings/C37-ffbs-forward-pass-transposed-transition.py
"""
import jax
import jax.numpy as jnp
from genjax import DiscreteHMMConfiguration
from genjax._src.generative_functions.distributions.custom.discrete_hmm import (
    forward_filtering_backward_sampling,
    latent_marginals,
)

obs = jnp.array([0, 1])
for k_trans in (1, 2):  # 1: symmetric (agrees), 2: non-symmetric (disagrees)
    cfg = DiscreteHMMConfiguration(jnp.array(3), jnp.array(k_trans), jnp.array(0), jnp.array(0.5), jnp.array(0.5))
    _, (_, filters) = forward_filtering_backward_sampling(jax.random.key(0), cfg, obs)
    print(f"k_trans={k_trans}  FFBS last filter     :", jnp.exp(filters[-1]))
    print(f"k_trans={k_trans}  posterior marginal x_T:", latent_marginals(cfg, obs)[1].probs_parameter()[-1])
