"""C29: flip_mvd, flip_enum_parallel and categorical_enum_parallel call the dual continuation as
kdual(key, (primals,), (tangents,)) although it takes (key, dual_tree) (primitives.py:174, 199-203, 237-239):
every program using them raises TypeError (also vi.flip_mvd / vi.categorical_enum guides in ELBO).
Further defects behind it: FlipMVD.sample builds probs=((p,),) (shape (1,1), line 159), reads the tangent from
the primals (line 170), treats kpure's list as a scalar (line 175) and its pure continuation skips later
add_cost / primitives (core.py:268) so it is biased with them and under baseline();
CategoricalEnumParallel weights by softmax(probs) although `probs` are probabilities (line 242)."""
import jax, jax.numpy as jnp
from genjax.adev import Dual, expectation, flip_mvd, flip_enum_parallel, categorical_enum_parallel

progs = dict(
    flip_mvd=lambda p: jnp.where(flip_mvd(p), 2.0, -1.0),
    flip_enum_parallel=lambda p: jnp.where(flip_enum_parallel(p), 2.0, -1.0),
    categorical_enum_parallel=lambda p: 1.0 * categorical_enum_parallel(jnp.array([p, 1.0 - p])),
)
for name, f in progs.items():
    try:
        print(name, expectation(f).jvp_estimate(jax.random.key(0), Dual(0.3, 1.0)))
    except TypeError as e:
        print(name, "TypeError:", str(e)[:120])
