"""C26: smc.stack_to_first_dim (used by ImportanceK.run_csmc) is only correct for scalar leaves and K >= 2.
 (a) a trace leaf that is not a scalar (here: the probs vector of a categorical) -> TypeError in jnp.concatenate;
 (b) K == 1 -> jnp.squeeze removes the particle axis: log_weights is 0-d, the estimate cannot be computed."""
import jax, jax.numpy as jnp, genjax
from genjax import ChoiceMapBuilder as C
from genjax.inference.smc import ImportanceK

@genjax.gen
def model_cat():
    c = genjax.categorical(probs=jnp.array([0.5, 0.3, 0.2])) @ "c"
    y = genjax.flip(jnp.array([0.9, 0.4, 0.1])[c]) @ "y"

@genjax.gen
def model_flip():
    x = genjax.flip(0.5) @ "x"
    y = genjax.flip(jnp.where(x, 0.9, 0.3)) @ "y"

key = jax.random.key(0)
try:
    ImportanceK(genjax.Target(model_cat, (), C["y"].set(True)), k_particles=2).run_csmc(key, C["c"].set(1))
except TypeError as e:
    print("(a) TypeError:", str(e)[:110])
coll = ImportanceK(genjax.Target(model_flip, (), C["y"].set(True)), k_particles=1).run_csmc(key, C["x"].set(True))
print("(b) K=1 log_weights shape:", coll.get_log_weights().shape, "(expected (1,))")
try:
    coll.get_log_marginal_likelihood_estimate()
except TypeError as e:
    print("(b) TypeError:", e)
