"""C19: Mask | and ^ (hence or_n / xor_n) are not elementwise for vectorized masks whose leaves have
more dimensions than the flag (documented as valid: "each leaf must have the flag's shape as its prefix").

tree_choose broadcasts the flag-shaped index against the *trailing* axes of the leaves:
 * leaf shape (n, k), k != n  -> ValueError (Incompatible shapes for broadcasting)
 * leaf shape (n, n)          -> silently selects along the wrong axis
The same expression under jax.vmap (per-element scalar flags) gives the expected answer.
"""
import jax
import jax.numpy as jnp
from genjax import Mask

f1, f2 = jnp.array([True, False]), jnp.array([False, True])

# (n, n) leaves: silently wrong
a = Mask(jnp.array([[1.0, 2.0], [3.0, 4.0]]), f1)
b = Mask(jnp.array([[10.0, 20.0], [30.0, 40.0]]), f2)
want = jax.vmap(lambda x, y: x | y)(a, b)  # row 0 from a, row 1 from b
got = a | b
print("vmap  :", want.value.tolist(), want.flag.tolist())  # [[1, 2], [30, 40]]
print("direct:", got.value.tolist(), got.flag.tolist())    # [[1, 20], [3, 40]]  <- columns, not rows
assert not jnp.array_equal(want.value, got.value), "defect no longer reproduces"

# (n, k) leaves, k != n: raises
c = Mask(jnp.ones((2, 3)), f1)
d = Mask(jnp.zeros((2, 3)), f2)
for name, op in (("|", lambda x, y: x | y), ("^", lambda x, y: x ^ y)):
    try:
        op(c, d)
        raise SystemExit(f"defect no longer reproduces for {name}")
    except ValueError as e:
        print(f"c {name} d raises ValueError:", str(e)[:80])
