"""C29: adev.uniform cannot be used: Uniform.before_tail_call annotates dual_tree as tuple[Any, ...]
(primitives.py:382) but the interpreter passes a list -> beartype TypeError on every call.
Minimal fix: annotate `dual_tree: DualTree` like the other primitives."""
import jax
from genjax.adev import Dual, expectation, uniform

@expectation
def f(theta):
    return theta * uniform()

print(f.jvp_estimate(jax.random.key(0), Dual(0.3, 1.0)))  # raises TypeError
