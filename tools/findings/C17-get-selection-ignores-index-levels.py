"""C17: get_selection() does not select addresses that sit under an index level.

Property C17: "get_selection selects exactly the map's addresses, and index levels ... stay
transparent to selections".  filter() is index-transparent (Indexed.filter pushes the selection
through), but ChmSel.get_subselection asks Indexed.get_inner_map(<name>), which is always empty.
Consequence: chm & chm (== chm.filter(chm.get_selection())) is empty for any indexed map.
Run: /venv/bin/python C17-get-selection-ignores-index-levels.py   (exit 1 = defect present)
"""
import sys
import jax.numpy as jnp
from genjax import ChoiceMapBuilder as C, Selection

bad = []
for name, chm in [
    ("C[1,'a'].set(5.)", C[1, "a"].set(5.0)),
    ("C[jnp.array([0,2]),'a'].set(v)", C[jnp.array([0, 2]), "a"].set(jnp.array([1.0, 2.0]))),
    ("C['b',1,'a'].set(5.)", C["b", 1, "a"].set(5.0)),
]:
    static_addr = ("b", "a") if name.startswith("C['b'") else ("a",)
    kept_by_filter = not chm.filter(Selection.at[static_addr]).static_is_empty()  # index-transparent: True
    selected = chm.get_selection()[static_addr]
    self_and = (chm & chm).static_is_empty()
    print(f"{name}: filter(at{list(static_addr)}) keeps it: {kept_by_filter}; get_selection()[{static_addr}] = {selected}; (chm & chm) empty: {self_and}")
    if kept_by_filter and not selected:
        bad.append(name)
sys.exit(1 if bad else 0)
