"""C19: Mask.unmask(default=...) is not elementwise for a vectorized mask whose leaves have more
dimensions than the flag (valid per the Mask docstring).  jnp.where(flag, value, default) broadcasts the
(n,) flag against the trailing axis: (n, n) leaves are mixed column-wise, (n, k != n) leaves raise.
"""
import jax
import jax.numpy as jnp
from genjax import Mask

flag = jnp.array([True, False])
value = jnp.array([[1.0, 2.0], [3.0, 4.0]])
default = jnp.array([[10.0, 20.0], [30.0, 40.0]])

want = jax.vmap(lambda v, f, d: Mask(v, f).unmask(default=d))(value, flag, default)
got = Mask(value, flag).unmask(default=default)
print("vmap  :", want.tolist())  # [[1, 2], [30, 40]]   row 0 valid, row 1 replaced by the default
print("direct:", got.tolist())   # [[1, 20], [3, 40]]
assert not jnp.array_equal(want, got), "defect no longer reproduces"

try:
    Mask(jnp.ones((2, 3)), flag).unmask(default=jnp.zeros((2, 3)))
    raise SystemExit("defect no longer reproduces")
except (ValueError, TypeError) as e:
    print("leaf (2,3):", type(e).__name__, str(e)[:80])
