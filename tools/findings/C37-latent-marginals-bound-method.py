"""C37: every public density method of DiscreteHMM raises.

latent_marginals (discrete_hmm.py:203-204) passes the bound methods `config.transition_tensor` /
`config.observation_tensor` (not their results) as `logits=` to tfd.Categorical, so
estimate_logpdf, data_logpdf and random_weighted (which scores its sample) all raise ValueError.
Minimal fix: call them -> `logits=config.transition_tensor()`, `logits=config.observation_tensor()`.
Run: /venv/bin/python tools/findings/C37-latent-marginals-bound-method.py
"""
import jax
import jax.numpy as jnp
from genjax import DiscreteHMM, DiscreteHMMConfiguration

cfg = DiscreteHMMConfiguration(jnp.array(2), jnp.array(1), jnp.array(1), jnp.array(0.5), jnp.array(1.0))
obs = jnp.array([0, 1])
key = jax.random.key(0)
for name, call in [
    ("estimate_logpdf", lambda: DiscreteHMM.estimate_logpdf(key, jnp.array([0, 1]), cfg, obs)),
    ("data_logpdf", lambda: DiscreteHMM.data_logpdf(cfg, obs)),
    ("random_weighted", lambda: DiscreteHMM.random_weighted(key, cfg, obs)),
]:
    try:
        print(name, "->", call())
    except Exception as e:  # expected on the defective tree: ValueError
        print(name, "raised", type(e).__name__, str(e)[:90])
