"""C30: ELBO / IWELBO gradients are those of E_q[log p(x,obs)] - the -log q (entropy) term is missing,
because Marginal.random_weighted returns tr.project(key, ~selection) (sp.py:227-228), which is 0 for the
default selection, instead of log q(x) = tr.project(key, selection).
Closed form here: q = Bernoulli(b); d/db -ELBO = -(lp1 - lp0) + log(b/(1-b))."""
import math, jax, jax.numpy as jnp, genjax
from genjax import ChoiceMapBuilder as C

@genjax.gen
def model(b):
    x = genjax.flip(0.4) @ "x"
    _ = genjax.normal(jnp.where(x, 1.0, -1.0), 1.0) @ "y"

@genjax.marginal()
@genjax.gen
def guide(target):
    (b,) = target.args
    _ = genjax.vi.flip_enum(b) @ "x"   # exact enumeration: the estimate is deterministic

grad = genjax.vi.ELBO(guide, lambda b: genjax.Target(model, (b,), C["y"].set(0.5)))
b = 0.3
ln = lambda y, m: -0.5 * (y - m) ** 2 - 0.5 * math.log(2 * math.pi)
lp1, lp0 = math.log(0.4) + ln(0.5, 1.0), math.log(0.6) + ln(0.5, -1.0)
print("library          :", grad(jax.random.key(0), (b,)))             # -0.5945 = -(lp1 - lp0)
print("d/db -ELBO       :", -(lp1 - lp0) + math.log(b / (1 - b)))     # -1.4418
