"""C26: run_csmc gives the retained particle the weight  log p(latents, obs) - log q(latents)  where q only counts the
user proposal: the internal proposal (q=None, or addresses the proposal does not cover) is not subtracted, because
target.importance(key, retained) constrains everything.  run_smc weights the very same particle by log p(obs | latents).
Consequence: E[exp(estimate_logpdf(v))] != density of random_weighted's output (e.g. == 1 for Importance(q=None))."""
import jax, jax.numpy as jnp, genjax
from genjax import ChoiceMapBuilder as C
from genjax.inference.smc import Importance, ImportanceK

@genjax.gen
def model():
    x = genjax.flip(0.5) @ "x"
    y = genjax.flip(jnp.where(x, 0.9, 0.3)) @ "y"

target = genjax.Target(model, (), C["y"].set(True))
for i in range(4):  # find a key whose fresh particle is x=True
    coll = Importance(target).run_smc(jax.random.key(i))
    if bool(coll.get_particles().get_choices()["x"][0]):
        print("run_smc   particle x=True  log-weight", float(coll.get_log_weights()[0]), "(= log 0.9)")
        break
print("run_csmc  retained x=True  log-weight", float(Importance(target).run_csmc(jax.random.key(0), C["x"].set(True)).get_log_weights()[0]), "(= log 0.45, expected log 0.9)")
print("ImportanceK(2).run_csmc weights", ImportanceK(target, k_particles=2).run_csmc(jax.random.key(0), C["x"].set(True)).get_log_weights(), "(last = retained)")
