"""C29: TailCallADEVPrimitive.jvp_estimate (core.py:95-102) hands the *same* key to the primitive and to its
continuation, so every reparameterised primitive (normal_reparam, mv_normal_*_reparam, uniform, beta_implicit)
shares its PRNG key with the next sampling primitive: two "independent" draws are identical / comonotone,
the primal is not distributed as the program value and REINFORCE estimates after it are biased.
Minimal fix:  key, sub_key = jax.random.split(key); return kdual(key, self.before_tail_call(sub_key, dual_tree))"""
import jax
from genjax.adev import Dual, expectation, normal_reparam

@expectation
def f(theta):
    x = normal_reparam(theta, 1.0)
    y = normal_reparam(theta, 1.0)  # second, independent draw
    return (x - y) ** 2             # E = 2

for s in range(5):
    print(f.jvp_estimate(jax.random.key(s), Dual(0.3, 1.0)).primal)  # always 0.0
