"""C17: a map that has an index level and a name level at the same depth cannot be read.

`C[1,'a'].set(5.) | C['b'].set(6.)` is built without complaint (public API, nothing documented as
unsupported), `chm['b']` works, but looking up the present address (1,'a') raises TypeError
('float' object is not subscriptable; IndexError for jnp scalar leaves): Or.get_inner_map(1) asks
both operands, and Static.get_inner_map(int) / Choice.get_inner_map(int) index *every* leaf (even
scalar leaves, and the `addr` field of nested Indexed nodes) as if the whole map were vectorized.
Run: /venv/bin/python C17-index-level-beside-name-level-lookup-raises.py   (exit 1 = defect present)
"""
import sys
import jax.numpy as jnp
from genjax import ChoiceMapBuilder as C

bad = 0
for name, chm, addr in [
    ("C[1,'a'].set(5.) | C['b'].set(6.)", C[1, "a"].set(5.0) | C["b"].set(6.0), (1, "a")),
    ("C['b'].set(6.).at[1,'a'].set(5.)", C["b"].set(6.0).at[1, "a"].set(5.0), (1, "a")),
    ("vmapped | static", C[jnp.arange(3), "a"].set(jnp.arange(3.0)) | C["b"].set(jnp.array(6.0)), (2, "a")),
]:
    try:
        print(name, addr, "->", chm[addr])
    except Exception as e:  # noqa: BLE001
        bad += 1
        print(name, addr, "-> raises", type(e).__name__, str(e)[:80], "| while chm['b'] =", chm["b"])
sys.exit(1 if bad else 0)
