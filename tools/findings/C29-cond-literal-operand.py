"""C29: a lax.cond on a sample whose operand is a constant raises: the interpreter forwards the
literal operand un-dualised (core.py:358-363, `in_vals[1:]`) and forward_mode's DualTree check rejects it.
Minimal fix: pass Dual.tree_pure(in_vals[1:])."""
import jax
from genjax.adev import Dual, expectation, flip_enum

@expectation
def f(p):
    return p * jax.lax.cond(flip_enum(p), lambda c: 2.0 * c, lambda c: c + 1.0, 2.0)

print(f.jvp_estimate(jax.random.key(0), Dual(0.3, 1.0)))  # raises TypeError; expected primal 0.3*(0.3*4+0.7*3)
