"""C26: SMCAlgorithm.estimate_logpdf (smc.py:193) scores `particle_collection.sample_particle(sub_key)` - a freshly
RESAMPLED particle - instead of the retained particle v (index -1 of the conditional-SMC collection).
With the exact posterior as proposal every weight equals log Z, so the estimate must be log posterior(v) for every key;
for K >= 2 it is log posterior(of whichever particle was resampled).  Fix: `particle = particle_collection.get_particle(-1)`.
(The beartype annotation defect on *args is bypassed through __wrapped__ to reach the body.)"""
import jax, jax.numpy as jnp, genjax
from genjax import ChoiceMapBuilder as C, Pytree
from genjax.inference.smc import ImportanceK, SMCAlgorithm
from genjax._src.generative_functions.distributions.distribution import Distribution

@genjax.gen
def model():
    x = genjax.flip(0.5) @ "x"
    y = genjax.flip(jnp.where(x, 0.9, 0.3)) @ "y"

@genjax.gen
def posterior(target):  # exact posterior of x given y=True: 0.45 / 0.6
    x = genjax.flip(0.75) @ "x"

@Pytree.dataclass
class Exact(Distribution):  # a correct SampleDistribution around a gen fn
    g: genjax.GenerativeFunction
    def random_weighted(self, key, *args):
        tr = self.g.simulate(key, args)
        return tr.get_score(), tr.get_choices()
    def estimate_logpdf(self, key, v, *args):
        return self.g.assess(v, args)[0]

target = genjax.Target(model, (), C["y"].set(True))
alg = ImportanceK(target, Exact(posterior), 2)
raw = SMCAlgorithm.estimate_logpdf.__wrapped__
print(sorted({round(float(raw(alg, jax.random.key(i), C["x"].set(True), target)), 4) for i in range(24)}), "expected only log 0.75 = -0.2877")
