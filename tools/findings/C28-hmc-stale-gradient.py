"""C28: HMC's leapfrog kernel carries the INITIAL gradient through the scan
(hmc.py:186 `return (new_trace, values, gradient, momenta), retdiff` - should be `gradients`),
so for L >= 2 the first half-kick of every later step uses the gradient at the start position.
The trajectory and the returned alpha differ from leapfrog; L = 1 is unaffected.
Minimal fix: return `gradients` (the value just recomputed at the new position) in the carry.
Run: /venv/bin/python tools/findings/C28-hmc-stale-gradient.py
"""
import jax
import jax.numpy as jnp
import jax.random as jrand
from genjax import ChoiceMap, Selection, gen, normal
from genjax.inference.requests import HMC
from genjax._src.inference.requests.hmc import sample_momenta, selection_gradient


@gen
def model():
    return normal(0.0, 0.5) @ "x"  # log p = -2 x^2 + c,  grad = -4 x


key = jax.random.key(0)
tr, _ = model.importance(key, ChoiceMap.kw(x=jnp.array(1.0)), ())
eps, L = 0.2, 2
new_tr, alpha, _, _ = jax.jit(HMC(Selection.at["x"], jnp.array(eps), L).edit)(key, tr, ())

# the same momentum the request drew (same key derivation), then textbook leapfrog in floats
_, g = selection_gradient(Selection.at["x"], tr, ())
p = float(sample_momenta(jrand.split(key)[1], g)[0]["x"])
q, p0 = 1.0, p
for _ in range(L):
    p += eps / 2 * (-4 * q)
    q += eps * p
    p += eps / 2 * (-4 * q)
print("library   x_end =", float(new_tr.get_choices()["x"]), " alpha =", float(alpha))
print("leapfrog  x_end =", q, " alpha =", (2 * 1.0**2 + p0**2 / 2) - (2 * q**2 + p**2 / 2))
