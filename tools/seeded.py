#!/usr/bin/env python3
"""Run checks against a seeded (property-breaking) change.

  tools/seeded.py run <id> --checks C05,C01 [--tier quick] [--jobs N]
      apply /verif/seeded/<id>/patch.diff to /repo (git apply), run the checks, ALWAYS undo the change
      (git checkout -- .), and record exit codes and violation signatures in seeded/<id>/results.json
  tools/seeded.py demo <id>
      run seeded/<id>/demo.py with and without the patch (must fail with, pass without)
  tools/seeded.py table
      print the checks-catch-changes table from all results.json files
"""
import argparse
import json
import os
import re
import subprocess
import sys

ROOT = os.path.dirname(os.path.dirname(os.path.abspath(__file__)))
REPO = "/repo"


def sh(cmd, **kw):
    return subprocess.run(cmd, shell=True, capture_output=True, text=True, **kw)


def repo_clean():
    return sh(f"git -C {REPO} status --porcelain").stdout.strip() == ""


def apply(sid):
    patch = os.path.join(ROOT, "seeded", sid, "patch.diff")
    r = sh(f"git -C {REPO} apply {patch}")
    if r.returncode != 0:
        raise SystemExit(f"cannot apply {patch}: {r.stderr}")


def undo():
    sh(f"git -C {REPO} checkout -- .")


def run(sid, checks, tier, jobs):
    if not repo_clean():
        raise SystemExit("/repo has uncommitted changes; refusing")
    out = {}
    apply(sid)
    try:
        for c in checks:
            cmd = f"cd {ROOT} && ./check {c} --tier {tier}" + (f" --jobs {jobs}" if jobs else "")
            r = sh(cmd)
            sigs = sorted(set(re.findall(r"signature: (\S.*)", r.stdout)))
            known = sorted(set(re.findall(r"KNOWN-FINDING: (.*)", r.stdout)))
            summary = [l for l in r.stdout.splitlines() if l.startswith(f"[{c}]")]
            out[c] = dict(exit=r.returncode, new_signatures=sigs[:12], n_signatures=len(sigs), summary=summary[-1] if summary else r.stdout[-300:] + r.stderr[-300:])
            print(f"{sid} {c}: exit={r.returncode} signatures={len(sigs)} {sigs[:2]}")
    finally:
        undo()
        # evidence files were rewritten by runs on the mutated tree: restore the committed ones
        sh(f"git -C {ROOT} checkout -- evidence")
    path = os.path.join(ROOT, "seeded", sid, "results.json")
    prev = {}
    if os.path.exists(path):
        prev = json.load(open(path))
    prev.setdefault(tier, {}).update(out)
    json.dump(prev, open(path, "w"), indent=1)


def demo(sid):
    if not repo_clean():
        raise SystemExit("/repo has uncommitted changes; refusing")
    d = os.path.join(ROOT, "seeded", sid, "demo.py")
    env = dict(os.environ, PYTHONPATH=f"{REPO}/src", JAX_PLATFORMS="cpu")
    without = subprocess.run(["/venv/bin/python", d], capture_output=True, text=True, env=env)
    apply(sid)
    try:
        with_ = subprocess.run(["/venv/bin/python", d], capture_output=True, text=True, env=env)
    finally:
        undo()
    print(f"{sid}: demo without patch exit={without.returncode}, with patch exit={with_.returncode}")
    if without.returncode != 0:
        print(without.stdout[-500:], without.stderr[-800:])
    return without.returncode == 0 and with_.returncode != 0


def table():
    base = os.path.join(ROOT, "seeded")
    for sid in sorted(os.listdir(base)):
        rp = os.path.join(base, sid, "results.json")
        mp = os.path.join(base, sid, "meta.json")
        if not os.path.exists(rp):
            continue
        res = json.load(open(rp))
        meta = json.load(open(mp)) if os.path.exists(mp) else {}
        for tier, d in res.items():
            caught = [c for c, v in d.items() if v["exit"] == 1]
            missed = [c for c, v in d.items() if v["exit"] == 0]
            print(f"{sid:28s} breaks={meta.get('property','?'):4s} tier={tier:8s} caught_by={','.join(caught) or '-':30s} silent={','.join(missed) or '-'}")


if __name__ == "__main__":
    ap = argparse.ArgumentParser()
    ap.add_argument("cmd", choices=["run", "demo", "table"])
    ap.add_argument("id", nargs="?")
    ap.add_argument("--checks", default="")
    ap.add_argument("--tier", default="quick")
    ap.add_argument("--jobs", default="")
    a = ap.parse_args()
    if a.cmd == "run":
        run(a.id, [c for c in a.checks.split(",") if c], a.tier, a.jobs)
    elif a.cmd == "demo":
        sys.exit(0 if demo(a.id) else 1)
    else:
        table()
