#!/usr/bin/env python3
"""Run checks against a seeded (property-breaking) change.

  tools/seeded.py run <id> --checks C05,C01 [--tier quick] [--jobs N]
      apply /verif/seeded/<id>/patch.diff to a scratch copy of /repo's current tree (under /var/tmp,
      removed afterwards), run the checks against it (VERIF_REPO) and record exit codes and violation
      signatures in seeded/<id>/results.json.  /repo itself is never modified, so background sweeps that
      use /repo are not disturbed (the equivalent in-place procedure is `git -C /repo apply <patch>`,
      run, `git -C /repo checkout -- .`).
  tools/seeded.py demo <id>
      run seeded/<id>/demo.py with and without the patch (must fail with, pass without)
  tools/seeded.py table
      print the checks-catch-changes table from all results.json files
"""
import argparse
import json
import os
import re
import subprocess
import sys

ROOT = os.path.dirname(os.path.dirname(os.path.abspath(__file__)))
REPO = "/repo"


def sh(cmd, **kw):
    return subprocess.run(cmd, shell=True, capture_output=True, text=True, **kw)


def repo_clean():
    return sh(f"git -C {REPO} status --porcelain").stdout.strip() == ""


def apply(sid):
    patch = os.path.join(ROOT, "seeded", sid, "patch.diff")
    r = sh(f"git -C {REPO} apply {patch}")
    if r.returncode != 0:
        raise SystemExit(f"cannot apply {patch}: {r.stderr}")


def undo():
    sh(f"git -C {REPO} checkout -- .")


def run(sid, checks, tier, jobs):
    """The patch is applied to a scratch copy of /repo's current tree (outside /repo and /verif) and the
    checks run against it through VERIF_REPO, so that nothing else using /repo at the same time is
    disturbed; `run-inplace` applies it to /repo itself (git apply ... git checkout -- .)."""
    import shutil

    scratch = f"/var/tmp/gjx-seeded-{sid}"
    shutil.rmtree(scratch, ignore_errors=True)
    os.makedirs(scratch)
    sh(f"cd {REPO} && git ls-files -z src | xargs -0 cp --parents -t {scratch}")
    patch = os.path.join(ROOT, "seeded", sid, "patch.diff")
    r = sh(f"cd {scratch} && git apply --unsafe-paths --directory={scratch} {patch} 2>&1 || patch -p1 < {patch}")
    if not sh(f"diff -rq {REPO}/src {scratch}/src").stdout.strip():
        shutil.rmtree(scratch, ignore_errors=True)
        raise SystemExit(f"patch did not change the scratch copy: {r.stdout} {r.stderr}")
    out = {}
    try:
        for c in checks:
            cmd = f"cd {ROOT} && VERIF_REPO={scratch} ./check {c} --tier {tier}" + (f" --jobs {jobs}" if jobs else "")
            r = sh(cmd)
            sigs = sorted(set(re.findall(r"signature: (\S.*)", r.stdout)))
            known = sorted(set(re.findall(r"KNOWN-FINDING: (.*)", r.stdout)))
            summary = [l for l in r.stdout.splitlines() if l.startswith(f"[{c}]")]
            out[c] = dict(exit=r.returncode, new_signatures=sigs[:12], n_signatures=len(sigs), summary=summary[-1] if summary else r.stdout[-300:] + r.stderr[-300:])
            print(f"{sid} {c}: exit={r.returncode} signatures={len(sigs)} {sigs[:2]}")
    finally:
        shutil.rmtree(scratch, ignore_errors=True)
        # evidence files were rewritten by runs on the mutated tree: restore the committed ones
        for c in checks:
            sh(f"git -C {ROOT} checkout -- evidence/{c}.json")
    path = os.path.join(ROOT, "seeded", sid, "results.json")
    prev = {}
    if os.path.exists(path):
        prev = json.load(open(path))
    prev.setdefault(tier, {}).update(out)
    json.dump(prev, open(path, "w"), indent=1)


def _scratch(sid):
    import shutil

    scratch = f"/var/tmp/gjx-seeded-{sid}"
    shutil.rmtree(scratch, ignore_errors=True)
    os.makedirs(scratch)
    sh(f"cd {REPO} && git ls-files -z src | xargs -0 cp --parents -t {scratch}")
    patch = os.path.join(ROOT, "seeded", sid, "patch.diff")
    r = sh(f"cd {scratch} && patch -p1 < {patch}")
    if not sh(f"diff -rq {REPO}/src {scratch}/src").stdout.strip():
        shutil.rmtree(scratch, ignore_errors=True)
        raise SystemExit(f"patch did not change the scratch copy: {r.stdout} {r.stderr}")
    return scratch


def demo(sid):
    import shutil

    d = os.path.join(ROOT, "seeded", sid, "demo.py")
    env = dict(os.environ, PYTHONPATH=f"{REPO}/src", JAX_PLATFORMS="cpu")
    without = subprocess.run(["/venv/bin/python", d], capture_output=True, text=True, env=env)
    scratch = _scratch(sid)
    try:
        env2 = dict(os.environ, PYTHONPATH=f"{scratch}/src", JAX_PLATFORMS="cpu")
        with_ = subprocess.run(["/venv/bin/python", d], capture_output=True, text=True, env=env2)
    finally:
        shutil.rmtree(scratch, ignore_errors=True)
    print(f"{sid}: demo without patch exit={without.returncode}, with patch exit={with_.returncode}")
    if without.returncode != 0:
        print(without.stdout[-500:], without.stderr[-800:])
    return without.returncode == 0 and with_.returncode != 0


def table():
    base = os.path.join(ROOT, "seeded")
    for sid in sorted(os.listdir(base)):
        rp = os.path.join(base, sid, "results.json")
        mp = os.path.join(base, sid, "meta.json")
        if not os.path.exists(rp):
            continue
        res = json.load(open(rp))
        meta = json.load(open(mp)) if os.path.exists(mp) else {}
        for tier, d in res.items():
            caught = [c for c, v in d.items() if v["exit"] == 1]
            missed = [c for c, v in d.items() if v["exit"] == 0]
            print(f"{sid:28s} breaks={meta.get('property','?'):4s} tier={tier:8s} caught_by={','.join(caught) or '-':30s} silent={','.join(missed) or '-'}")


if __name__ == "__main__":
    ap = argparse.ArgumentParser()
    ap.add_argument("cmd", choices=["run", "demo", "table"])
    ap.add_argument("id", nargs="?")
    ap.add_argument("--checks", default="")
    ap.add_argument("--tier", default="quick")
    ap.add_argument("--jobs", default="")
    a = ap.parse_args()
    if a.cmd == "run":
        run(a.id, [c for c in a.checks.split(",") if c], a.tier, a.jobs)
    elif a.cmd == "demo":
        sys.exit(0 if demo(a.id) else 1)
    else:
        table()
