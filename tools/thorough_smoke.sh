#!/bin/sh
cd "$(dirname "$0")/.."
for P in C01 C02 C03 C06 C08 C10 C11 C12 C13 C14 C15 C16 C22 C23 C32 C34 C35 C38; do
  START=$(date +%s)
  OUT=$(VERIF_CASE_STRIDE=12 ./check $P --tier thorough --jobs 6 2>&1)
  RC=$?
  END=$(date +%s)
  echo "$P rc=$RC t=$((END-START))s $(echo "$OUT" | grep "^\[$P\]" | tail -1)"
  echo "$OUT" | grep -E "^VIOLATION|signature:|HARNESS" | head -6
done
