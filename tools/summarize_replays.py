import json,glob,collections,sys
prop=sys.argv[1]
by=collections.defaultdict(list)
for f in glob.glob(f'/verif/replays/{prop}/*.json'):
    d=json.load(open(f)); s=d['signature'].split('|'); by[(s[2],s[3],s[4])].append(d)
for sig,ds in sorted(by.items()):
    comps=sorted({d['signature'].split('|')[1] for d in ds})
    print('==',sig,len(ds), comps[:6])
    for d in sorted(ds,key=lambda d:len(d['case']))[:int(sys.argv[2]) if len(sys.argv)>2 else 1]:
        print('   case:',d['case']); print('   ',json.dumps(d['failure']['detail'])[:700])
