#!/usr/bin/env python3
"""Hand-written mutation check (DESIGN section 6): apply a textual mutation to a scratch copy of the
library outside /repo and /verif, run the named checks against it (VERIF_REPO), delete the copy.

  tools/selfmut.py <name>            run one mutant from the table below
  tools/selfmut.py all               run all
Results are appended to tools/selfmut_results.json (not evidence)."""
import json
import os
import re
import shutil
import subprocess
import sys

ROOT = os.path.dirname(os.path.dirname(os.path.abspath(__file__)))
SCRATCH = "/var/tmp/gjx-selfmut"
S = "src/genjax/_src/"

# name: (file, old, new, checks)
MUTANTS = {
    "vmaptrace_score_drop_last": (S + "generative_functions/combinators/vmap.py", "score = jnp.sum(jax.vmap(lambda tr: tr.get_score())(tr))", "score = jnp.sum(jax.vmap(lambda tr: tr.get_score())(tr)[:-1]) if length > 1 else jnp.sum(jax.vmap(lambda tr: tr.get_score())(tr))", ["C02", "C11", "C04"]),
    "static_sim_key_no_increment": (S + "generative_functions/static.py", "        new_key = jax.random.fold_in(self.key, self.key_counter)\n        self.key_counter += 1\n        return new_key\n\n    def yield_state(self):\n        return self.traces\n", "        new_key = jax.random.fold_in(self.key, self.key_counter)\n        return new_key\n\n    def yield_state(self):\n        return self.traces\n", ["C04"]),
    "dist_update_empty_discard": (S + "generative_functions/distributions/distribution.py", "                        return (new_tr, w, retval_diff, Update(discard))", "                        return (new_tr, w, retval_diff, Update(ChoiceMap.empty()))", ["C05", "C06"]),
    "incremental_first_input_only": (S + "core/compiler/interpreters/incremental.py", "    check = Diff.static_check_no_change(args)\n", "    check = Diff.static_check_no_change(args[:1])\n", ["C09", "C08"]),
    "andsel_leaf": (S + "core/generative/choice_map.py", "            case (a, b) if a == b:\n                return a\n            case _:\n                return AndSel(a, b)", "            case (a, LeafSel()):\n                return a\n            case (a, b) if a == b:\n                return a\n            case _:\n                return AndSel(a, b)", ["C18"]),
    "tree_choose_clip": (S + "core/compiler/staging.py", 'result = jnp.choose(idx, vs, mode="wrap")', 'result = jnp.choose(idx, vs, mode="clip")', ["C20"]),
    "mask_edit_swap_transitions": (S + "generative_functions/combinators/mask.py", "        t_to_f = FlagOp.and_(pre_check, FlagOp.not_(post_check))", "        t_to_f = FlagOp.and_(FlagOp.not_(pre_check), post_check)", ["C14"]),
    "dimap_old_primals": (S + "generative_functions/combinators/dimap.py", "            (primals, inner_retval_primals),\n            (tangents, inner_retval_tangents),", "            (trace.get_args(), inner_retval_primals),\n            (tangents, inner_retval_tangents),", ["C15"]),
    "scan_assess_idx_from_one": (S + "generative_functions/combinators/scan.py", "            (0, carry),\n            scanned_in,\n            length=self.length,\n        )\n        return (\n            jnp.sum(scores),", "            (1, carry),\n            scanned_in,\n            length=self.length,\n        )\n        return (\n            jnp.sum(scores),", ["C12", "C02", "C01"]),
    "importance_drop_proposal_weight": (S + "inference/smc.py", "            jnp.array([target_score - log_weight]),", "            jnp.array([target_score]),", ["C26"]),
    "indexed_check0": (S + "core/generative/choice_map.py", "                    lambda v: Mask.build(v[idx], check[idx]),", "                    lambda v: Mask.build(v[idx], check[0]),", ["C17"]),
    "regenerate_keeps_old_value_weight": (S + "generative_functions/distributions/distribution.py", "            incremental_w = w - trace.get_score()\n", "            incremental_w = w\n", ["C07"]),
    "static_project_skips_last": (S + "generative_functions/static.py", "        for addr in trace.subtraces.keys():\n            subprojection = selection(addr)", "        for addr in list(trace.subtraces.keys())[: max(1, len(trace.subtraces) - 1) if len(trace.subtraces) > 2 else None]:\n            subprojection = selection(addr)", ["C10"]),
    "generate_mask_weight_always": (S + "generative_functions/distributions/distribution.py", "                    w = 0.0\n                    return (score, w, new_v)", "                    w = score\n                    return (score, w, new_v)", ["C35", "C03", "C11"]),
    "vmap_edit_index_wrong_slice": (S + "generative_functions/combinators/vmap.py", "        trace_slice = jtu.tree_map(lambda v: v[idx], trace.inner)", "        trace_slice = jtu.tree_map(lambda v: v[jnp.maximum(idx - 1, 0)], trace.inner)", ["C11"]),
}


def sh(cmd):
    return subprocess.run(cmd, shell=True, capture_output=True, text=True)


def run(name):
    f, old, new, checks = MUTANTS[name]
    if old is None:
        print(name, "skipped (no textual mutation defined)")
        return None
    shutil.rmtree(SCRATCH, ignore_errors=True)
    os.makedirs(SCRATCH)
    sh(f"cp -r /repo/src {SCRATCH}/src")
    p = os.path.join(SCRATCH, f)
    s = open(p).read()
    if old not in s:
        shutil.rmtree(SCRATCH, ignore_errors=True)
        raise SystemExit(f"{name}: pattern not found in {f}")
    open(p, "w").write(s.replace(old, new, 1))
    out = {}
    try:
        for c in checks:
            r = sh(f"cd {ROOT} && VERIF_REPO={SCRATCH} ./check {c} --tier quick")
            sigs = sorted(set(re.findall(r"signature: (\S.*)", r.stdout)))
            out[c] = dict(exit=r.returncode, signatures=sigs[:6])
            print(f"{name:36s} {c}: exit={r.returncode} {sigs[:2]}")
    finally:
        shutil.rmtree(SCRATCH, ignore_errors=True)
        sh(f"git -C {ROOT} checkout -- evidence")
        sh(f"rm -rf {ROOT}/replays")
    rp = os.path.join(ROOT, "tools", "selfmut_results.json")
    res = json.load(open(rp)) if os.path.exists(rp) else {}
    res[name] = out
    json.dump(res, open(rp, "w"), indent=1)
    return out


if __name__ == "__main__":
    names = list(MUTANTS) if sys.argv[1] == "all" else sys.argv[1:]
    for n in names:
        run(n)
