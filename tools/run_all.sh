#!/bin/sh
# run every claimed check (quick tier by default) and print one summary line each
cd "$(dirname "$0")/.."
TIER="${1:-quick}"
for P in $(python3 -c "import json; print(' '.join(c['property_id'] for c in json.load(open('MANIFEST.json'))['checks']))"); do
  START=$(date +%s)
  OUT=$(./check $P --tier $TIER 2>&1)
  RC=$?
  END=$(date +%s)
  echo "$P rc=$RC t=$((END-START))s $(echo "$OUT" | grep "^\[$P\]" | tail -1)"
  echo "$OUT" | grep -E "^VIOLATION|signature:|HARNESS" | head -6
done
