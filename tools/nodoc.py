import re,sys
for f in sys.argv[1:]:
    src=open(f).read()
    out=re.sub(r'"""(?:.|\n)*?"""','"""..."""',src)
    lines=out.split('\n')
    # skip license header
    start=0
    for i,l in enumerate(lines):
        if not l.startswith('#') and l.strip(): start=i;break
    print('=====',f)
    print('\n'.join(lines[start:]))
