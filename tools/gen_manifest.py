#!/usr/bin/env python3
"""Regenerate MANIFEST.json from the property modules that exist (mc/props/cNN.py) and
tools/manifest_meta.json (level text / notes per property)."""
import json, os, re, sys, importlib
ROOT = os.path.dirname(os.path.dirname(os.path.abspath(__file__)))
sys.path.insert(0, ROOT)
props = [json.loads(l) for l in open(os.path.join(ROOT, "properties.jsonl"))]
meta = json.load(open(os.path.join(ROOT, "tools", "manifest_meta.json")))
checks, na = [], []
for p in props:
    pid = p["id"]
    path = os.path.join(ROOT, "mc", "props", pid.lower() + ".py")
    m = meta.get(pid, {})
    if os.path.exists(path) and pid in meta and not m.get("disabled"):
        src = open(path).read()
        level = re.search(r'^LEVEL\s*=\s*"(\w+)"', src, re.M).group(1)
        checks.append(dict(
            property_id=pid,
            quick_cmd=f"./check {pid} --tier quick",
            thorough_cmd=f"./check {pid} --tier thorough",
            evidence_file=f"/verif/evidence/{pid}.json",
            replay_cmd_template=f"./check {pid} --replay {{path}}",
            engine=m.get("engine", "mc"),
            level_claimed=dict(category=level, text=m.get("text", ""), design_ref=m.get("design_ref", f"DESIGN.md section 4 ({pid})")),
            level_note=m.get("note", ""),
            technique=m.get("technique", "bounded exhaustive enumeration of programs/inputs/random outcomes on the real code against a reference model"),
        ))
    else:
        na.append(dict(property_id=pid, reason=m.get("na_reason", "check not built yet in this round (planned; see DESIGN.md section 4)")))
man = dict(
    version=1,
    setup_cmd="./check SELFTEST",
    hooks=dict(
        guard="GENJAX_VERIF",
        enable="no source hooks: the randomness seam patches tfd.Distribution.sample / jax.random.categorical inside the harness process; checks import genjax from /repo/src (editable install), i.e. the current working tree",
        baseline_off_cmd="cd /repo && /venv/bin/python -m pytest -ra -q -p no:cacheprovider --timeout=900 --continue-on-collection-errors",
        source_commits=[],
        add_only=True,
    ),
    engines=[
        dict(name="E1-seam", path="mc/seam.py", serves_properties=meta.get("_engines", {}).get("E1", []), kind_free_text="randomness seam + stateless path explorer (complete probability trees of real executions)"),
        dict(name="E2E3-grammar-ref", path="mc/grammar.py", serves_properties=meta.get("_engines", {}).get("E2", []), kind_free_text="bounded program grammar -> real genjax object and numpy reference semantics"),
        dict(name="E5-fgrammar", path="mc/fgrammar.py", serves_properties=["C09", "C31", "C36"], kind_free_text="bounded grammar of JAX functions (control flow, literals, constants, multi-result primitives) for the jaxpr interpreters"),
        dict(name="terms", path="mc/props", serves_properties=["C17", "C18", "C19", "C20", "C21", "C24", "C33"], kind_free_text="bounded-exhaustive term enumerators (choice-map / selection / mask / pytree terms, wrapper tables) with independent evaluators, inside the property modules"),
        dict(name="mc", path="mc/common.py", serves_properties=[], kind_free_text="runner: deterministic case enumeration, worker pool, evidence writer, known-findings matcher, replay"),
        dict(name="E4-space", path="mc/space.py", serves_properties=meta.get("_engines", {}).get("E4", []), kind_free_text="explicit-state BFS over GFI edit histories on real traces"),
    ],
    checks=checks,
    not_applicable=na,
    notes="All verdicts come from exhaustive enumeration within stated bounds (see DESIGN.md Appendix A); evidence files are written by the checks themselves.",
)
json.dump(man, open(os.path.join(ROOT, "MANIFEST.json"), "w"), indent=1)
try:
    import jsonschema
    jsonschema.validate(man, json.load(open("/root/.vp/MANIFEST.schema.json")))
    print("MANIFEST valid;", len(checks), "checks,", len(na), "not claimed")
except ImportError:
    print("written (jsonschema not available)")
