"""Generic GFI exploration routines shared by the property modules (E1 trees + reference oracles)."""

from __future__ import annotations

import math
from collections import defaultdict

import jax
import jax.numpy as jnp
import numpy as np

from . import seam
from .common import HarnessError, close
from .grammar import MaskVal, Missing, Node, RefCtx, component_of, ref_enumerate, ref_run
from .harness import (
    Prog,
    args_key,
    choices_to_asg,
    cmp_ret,
    make_chm,
    norm_ret,
    probes_for,
    pyval,
    read_choices,
    to_jax_args,
)


def concrete_args(args):
    """python bools / ints stay python objects (concrete); floats and arrays become jnp arrays"""

    def conv(a):
        if a is None:
            return None
        if isinstance(a, tuple):
            return tuple(conv(x) for x in a)
        if isinstance(a, (bool, np.bool_)):
            return bool(a)
        if isinstance(a, (int, np.integer)):
            return int(a)
        if isinstance(a, float):
            return jnp.asarray(a, dtype=jnp.float32)
        return jnp.asarray(a)

    return tuple(conv(a) for a in args)


def asg_key(asg):
    return repr(sorted(((repr(p), (round(v, 5) if isinstance(v, float) else v)) for p, v in asg.items())))


class SimTree:
    """Complete probability tree of simulate for (prog, args)."""

    def __init__(self, prog: Prog, args, key, max_paths=4096, op="simulate", static_args=False):
        self.prog, self.args, self.key = prog, args, key
        node = prog.node
        self.universe = prog.universe([args])
        self.probes = probes_for(self.universe)
        self.paths_all = list(self.universe) + list(self.probes)
        paths_all = self.paths_all
        gf = prog.gf

        if op == "simulate":

            def f(key, args):
                tr = gf.simulate(key, args)
                return dict(
                    score=tr.get_score(),
                    retval=tr.get_retval(),
                    choices=read_choices(tr.get_choices(), paths_all),
                    trace=tr,
                )

        elif op == "propose":

            def f(key, args):
                chm, score, retval = gf.propose(key, args)
                return dict(score=score, retval=retval, choices=read_choices(chm, paths_all))

        else:
            raise ValueError(op)

        # structure key: the universe depends on args only through array shapes / python structure
        if static_args:
            # python-level arguments (bool flags, int indices) stay concrete: closed over as constants
            cargs = concrete_args(args)
            jf = prog.jitted((op, "static", tuple(paths_all), args_key(args)), lambda key: f(key, cargs))
            self.fn = lambda: jf(key)
        else:
            jf = prog.jitted((op, tuple(paths_all), jax.tree_util.tree_structure(args)), f)
            jargs = to_jax_args(args)
            self.fn = lambda: jf(key, jargs)
        with seam.seam(prog.n_cont):
            if not seam.check_replay(self.fn):
                raise HarnessError(f"non-deterministic replay for {node.name} {op}")
            self.paths, self.stats = seam.explore(self.fn, max_paths=max_paths)
        self.total = seam.total_prob(self.paths)

    def path_asg(self, p):
        return choices_to_asg(self.paths_all, p.result["choices"])


def check_trace_against_ref(ctx, node: Node, args, asg, score, retval, where: str, op: str):
    """asg: choices read from the real trace (valid entries only).  Returns the RefCtx or None."""
    # foreign addresses must be absent
    try:
        ret, R = ref_run(node, args, asg)
    except Missing as m:
        ctx.fail(component_of(node), op, where, "choices:missing_address", dict(program=node.name, args=args_key(args), missing=repr(m.path), asg=asg_key(asg)))
        return None
    visited = set(R.visited())
    extra = set(asg) - visited
    if extra:
        ctx.fail(component_of(node), op, where, "choices:extra_address", dict(program=node.name, args=args_key(args), extra=sorted(map(repr, extra)), asg=asg_key(asg)))
        return None
    if not close(score, R.score()):
        ctx.fail(component_of(node), op, where, "score", dict(program=node.name, args=args_key(args), asg=asg_key(asg), impl=float(score), ref=R.score()))
    if not cmp_ret(retval, ret):
        ctx.fail(component_of(node), op, where, "retval", dict(program=node.name, args=args_key(args), asg=asg_key(asg), impl=repr(retval), ref=repr(ret)))
    return R


def distribution_check(ctx, node: Node, args, tree: SimTree, op="simulate"):
    """Exact identity: for every complete assignment, sum of path probabilities == reference
    probability (finite discrete programs)."""
    mass = defaultdict(float)
    asgs = {}
    for p in tree.paths:
        a = tree.path_asg(p)
        k = asg_key(a)
        mass[k] += p.prob
        asgs[k] = a
    ref = {}
    for asg, ret, R in ref_enumerate(node, args):
        ref[asg_key(asg)] = math.exp(R.score()) if R.score() > -1e30 else 0.0
    bad = []
    for k in set(mass) | set(ref):
        pi, pr = mass.get(k, 0.0), ref.get(k, 0.0)
        if abs(pi - pr) > 1e-5:
            bad.append((k, pi, pr))
    if bad:
        bad.sort()
        ctx.fail(
            component_of(node),
            op,
            "finite_discrete",
            "distribution",
            dict(program=node.name, args=args_key(args), n_bad=len(bad), first=[dict(asg=k, impl=pi, ref=pr) for k, pi, pr in bad[:3]]),
        )
    return len(mass), len(ref)
