"""setup_cmd: self-test of the seam and explorer (builds nothing, fetches nothing)."""

from __future__ import annotations

import sys


def main() -> int:
    import jax
    import jax.numpy as jnp
    import numpy as np

    from . import seam
    from .harness import base_key
    import genjax
    from genjax import flip, gen

    @gen
    def two(p):
        a = flip(p) @ "a"
        b = flip(jnp.where(a, 0.2, 0.7)) @ "b"
        return a

    key = base_key(0)
    with seam.seam():
        f = jax.jit(lambda k: (lambda tr: (tr.get_choices()["a"], tr.get_choices()["b"], tr.get_score()))(two.simulate(k, (0.3,))))
        fn = lambda: f(key)
        if not seam.check_replay(fn):
            print("SELFTEST: replay not deterministic")
            return 1
        paths, stats = seam.explore(fn)
    tot = seam.total_prob(paths)
    ok = len(paths) == 4 and abs(tot - 1.0) < 1e-6
    for p in paths:
        a, b, s = p.result
        ok = ok and abs(float(np.exp(s)) - p.prob) < 1e-6
    # shared key => comonotone, not independent
    with seam.seam():
        g = jax.jit(lambda k: (genjax.flip.simulate(k, (0.5,)).get_retval(), genjax.flip.simulate(k, (0.5,)).get_retval()))
        paths2, _ = seam.explore(lambda: g(key))
    ok = ok and len(paths2) == 2 and all(bool(p.result[0]) == bool(p.result[1]) for p in paths2)
    print(f"SELFTEST: paths={len(paths)} sum_prob={tot:.9f} shared_key_paths={len(paths2)} -> {'ok' if ok else 'FAILED'}")
    return 0 if ok else 1


if __name__ == "__main__":
    sys.exit(main())
