"""Breadth-first exploration of GFI histories with per-property oracles (uses space.py).

`explore_program(ctx, node, tier, seed, props, ...)` runs the BFS for one program and evaluates the
oracles of the properties listed in `props`:

  C01  every state: library assess(trace.choices, trace.args) == (score, retval) == reference
  C05  update transitions: args, choices = c (+) old, weight = d score (no new address), discard
  C06  every accepted edit followed by its backward request lands on the predecessor, weight negated
  C07  Regenerate transitions: unselected unchanged, weight = d score, resampled ~ prior
  C08  NoChange-tagged retdiff leaves carry the previous value; honest re-tagging differential
  C38  EmptyRequest / StaticRequest / DiffAnnotate(identity) / Trace.update|edit|project vs primitives
"""

from __future__ import annotations

import itertools
import math
from collections import defaultdict, deque

import jax
import jax.numpy as jnp
import numpy as np

import genjax
from genjax import ChoiceMap, Diff, Selection, Update, Regenerate, EmptyRequest, StaticRequest, DiffAnnotate, IndexRequest
from genjax._src.core.compiler.interpreters.incremental import NoChange, UnknownChange
from genjax._src.core.generative.concepts import NotSupportedEditRequest

from . import seam
from .common import HarnessError, close
from .grammar import Missing, Node, ref_run, rotate
from .harness import Prog, args_key, base_key, choices_to_asg, cmp_ret, norm_ret, static_part, to_jax_args, make_chm
from .gfi import asg_key, check_trace_against_ref
from .space import (
    Space,
    Spec,
    State,
    ref_selected,
    ref_selected_path,
    index_specs,
    regenerate_specs,
    retdiff_tags,
    trace_hash,
    update_specs,
)

UNSUPPORTED = (NotImplementedError, AssertionError, NotSupportedEditRequest)

BOUNDS = {
    "quick": dict(depth=2, state_cap=40, init_cap=4, args=2),
    "thorough": dict(depth=3, state_cap=400, init_cap=24, args=3),
}


def _ref_score(node, args, asg):
    try:
        ret, R = ref_run(node, args, asg)
    except Missing:
        return None, None, None
    return R.score(), ret, R


def _leaf_eq(a, b):
    a, b = np.asarray(a), np.asarray(b)
    if a.shape != b.shape:
        return False
    if a.dtype == np.bool_ or np.issubdtype(a.dtype, np.integer):
        return bool(np.array_equal(a, b))
    return close(a.astype(np.float64), b.astype(np.float64))


def traces_equal(t1, t2) -> bool:
    l1, l2 = jax.tree_util.tree_leaves(t1), jax.tree_util.tree_leaves(t2)
    return len(l1) == len(l2) and all(_leaf_eq(a, b) for a, b in zip(l1, l2))


class Explorer:
    def __init__(self, ctx, node: Node, tier: str, seed: int, props: set, kinds=("update", "regenerate"), bounds=None, static_args=False, all_arg_changes=False, weight_always=False, alphabet=None):
        self.all_arg_changes, self.weight_always = all_arg_changes, weight_always
        self.ctx, self.node, self.tier, self.seed, self.props = ctx, node, tier, seed, set(props)
        self.kinds = kinds
        self.b = dict(BOUNDS[tier])
        if bounds:
            self.b.update(bounds)
        if tier == "quick" and node.depth() >= 2:
            # quick tier: histories of length 1 for doubly nested programs (depth 2 in thorough)
            self.b["depth"] = 1
            self.b["init_cap"] = 4
        self.prog = Prog(node, n_cont=2)
        self.key = base_key(seed)
        alph = rotate(node.arg_alphabet(), seed)[: self.b["args"]] if alphabet is None else list(alphabet)
        self.alph = alph
        self.space = Space(self.prog, self.key, alph, static_args=static_args)
        gf = self.prog.gf
        self._own_assess = jax.jit(lambda tr: gf.assess(tr.get_choices(), tr.get_args()))

    # ---------------------------------------------------------------- helpers
    def component(self):
        return component_of(self.node)

    def fail(self, prop, op, input_class, symptom, detail):
        if prop in self.props:
            # the ctx's property is the module's; only report oracles of that property
            self.ctx.fail(self.component(), op, input_class, symptom, {**dict(detail), "program": self.node.name})

    def hist(self, state, spec=None):
        h = list(state.history)
        if spec is not None:
            h = h + [spec.describe()]
        return h

    # ---------------------------------------------------------------- invariants
    def check_state(self, state: State, how: str):
        node = self.node
        ctx = self.ctx
        if "C01" in self.props:
            # library's own assess on the trace's own choices
            fs = set(node.features() & {"zero_length", "mask_concrete_false", "switch_concrete_idx"})
            if self.space.static_args and node.kind == "mask" and state.args and state.args[0] is False:
                fs.add("mask_concrete_false")
            feats = sorted(fs)
            oa = "own_assess" + "".join(":" + f for f in feats)
            try:
                s, r = self._own_assess(state.trace)
                s = float(np.asarray(s))
                if not close(s, state.score):
                    self.fail("C01", how, "own_assess", "score", dict(history=state.history, trace=state.score, assess=s))
                if not _tree_close(r, _raw_ret(state)):
                    self.fail("C01", how, "own_assess", "retval", dict(history=state.history, trace=repr(state.retval), assess=repr(norm_ret(r))))
            except Exception as e:
                self.fail("C01", how, oa, f"exception:{type(e).__name__}", dict(history=state.history, msg=str(e)[:300]))
            R = check_trace_against_ref(_Proxy(self, "C01"), node, state.args, state.asg, state.score, state.retval, "state", how)
            ctx.ev((node.name, "C01", state.key()), nontrivial=len(state.history) > 1)

    # ---------------------------------------------------------------- BFS
    def run(self):
        ctx, node, space = self.ctx, self.node, self.space
        seen = {}
        frontier = deque()
        inits = space.initial_states()
        # simplest first, bounded number of initial states per argument tuple
        per_args = defaultdict(list)
        for st, p in inits:
            per_args[args_key(st.args)].append(st)
        n_init = 0
        for k, sts in per_args.items():
            for st in sts[: self.b["init_cap"]]:
                hk = st.key()
                if hk in seen:
                    continue
                seen[hk] = st
                ctx.state((node.name, hk))
                self.check_state(st, "simulate")
                frontier.append(st)
                n_init += 1
            if len(sts) > self.b["init_cap"]:
                ctx.note("initial_states_beyond_cap", len(sts) - self.b["init_cap"])
        ctx.note("initial_states", n_init)
        capped = False
        while frontier:
            st = frontier.popleft()
            if st.depth >= self.b["depth"]:
                continue
            for spec in self.specs_for(st):
                succs = self.transition(st, spec)
                for ns in succs:
                    hk = ns.key()
                    if hk in seen:
                        continue
                    if len(seen) >= self.b["state_cap"]:
                        capped = True
                        continue
                    seen[hk] = ns
                    ctx.state((node.name, hk))
                    self.check_state(ns, spec.kind)
                    frontier.append(ns)
        if capped:
            ctx.note("state_cap_hit")
            ctx.cap(f"state cap {self.b['state_cap']} (depth bound {self.b['depth']})")
        ctx.note("states", len(seen))
        return seen

    def specs_for(self, st: State):
        specs = []
        if "update" in self.kinds:
            specs += update_specs(self.node, st, self.alph, self.tier, all_arg_changes=self.all_arg_changes)
        if "regenerate" in self.kinds:
            specs += regenerate_specs(self.node, self.space.universe, self.tier, state=st, args_alphabet=self.alph)
        if "index" in self.kinds:
            specs += index_specs(self.node, st, self.tier)
        return specs

    # ---------------------------------------------------------------- one transition
    def transition(self, st: State, spec: Spec):
        ctx, node, space = self.ctx, self.node, self.space
        op = spec.kind
        supported = True
        if op == "regenerate" and not node.regen_ok:
            supported = False
        if op == "index" and node.kind not in ("vmap", "scan", "repeat"):
            supported = False
        try:
            results, new_args = space.apply(st, spec)
        except UNSUPPORTED as e:
            if not supported:
                ctx.note(f"unsupported_{op}_{type(e).__name__}")
                return []
            self.fail_any(op, spec.label or op, f"exception:{type(e).__name__}", dict(history=self.hist(st, spec), msg=str(e)[:300]))
            return []
        except seam.TreeCapped:
            ctx.cap(f"edit tree capped: {spec.describe()}")
            return []
        except HarnessError:
            raise
        except Exception as e:
            self.fail_any(op, spec.label or op, f"exception:{type(e).__name__}", dict(history=self.hist(st, spec), msg=str(e)[:300]))
            return []
        if not supported:
            # the library accepted a request outside the documented domain: fine, treat normally
            ctx.note(f"accepted_outside_domain_{op}")
        succs = []
        old_ref_score, old_ref_ret, old_R = _ref_score(node, st.args, st.asg)
        total = sum(p.prob for _, p in results)
        if abs(total - 1.0) > 1e-6:
            raise HarnessError(f"edit tree of {node.name} does not sum to one: {total}")
        for res, p in results:
            ctx.transition()
            try:
                ns = space.successor(st, spec, res, new_args)
            except ValueError as e:
                # the new trace's choice map cannot be read as a finite map (e.g. a vector where a scalar belongs)
                self.fail_any(op, spec.label or op, "choices:malformed", dict(history=self.hist(st, spec), msg=str(e)[:200]))
                continue
            succs.append(ns)
            tkey = (node.name, st.key(), repr(spec.describe()), asg_key(ns.asg))
            ctx.ev(tkey, nontrivial=True)
            ctx.outcome(asg_key(ns.asg))
            new_ref_score, new_ref_ret, new_R = _ref_score(node, new_args, ns.asg)
            w = float(np.asarray(res["weight"]))
            if op == "update" or (op == "index" and spec.inner.kind == "update"):
                self.oracle_update(st, spec, res, ns, w, old_ref_score, new_ref_score, new_R)
            if op == "regenerate" or (op == "index" and spec.inner.kind == "regenerate"):
                self.oracle_regenerate(st, spec, res, ns, w, old_ref_score, new_ref_score, new_R)
            if "C08" in self.props:
                self.oracle_retdiff(st, spec, res, ns)
            if "C06" in self.props:
                self.oracle_bwd(st, spec, res, ns, w)
        if (op == "regenerate" or (op == "index" and spec.inner.kind == "regenerate")) and "C07" in self.props and results:
            self.oracle_regen_distribution(st, spec, results, new_args)
        if "C08" in self.props and op == "update" and spec.new_args is None:
            self.oracle_retag(st, spec, results)
        if len(ctx.samples) < 2 and results:
            ctx.sample(dict(program=node.name, history=self.hist(st, spec), outcomes=len(results), weight=float(np.asarray(results[0][0]["weight"]))))
        return succs

    def fail_any(self, op, input_class, symptom, detail):
        # an exception inside the documented domain violates the property that specifies the request
        owner = {"update": "C05", "regenerate": "C07", "index": "C05"}.get(op)
        if owner in self.props:
            self.ctx.fail(self.component(), op, input_class, symptom, {**dict(detail), "program": self.node.name})
        else:
            self.ctx.note(f"edit_raised_{op}")

    # ---------------------------------------------------------------- oracles
    def oracle_update(self, st, spec, res, ns, w, old_ref, new_ref, new_R):
        if "C05" not in self.props:
            return
        node = self.node
        c = spec.constraint or {}
        lab = spec.label or "update"
        h = self.hist(st, spec)
        # new arguments
        if not _tree_close(res["args"], to_jax_args(ns.args)):
            self.fail("C05", "update", lab, "args", dict(history=h))
        if new_R is None:
            self.fail("C05", "update", lab, "choices:missing_address", dict(history=h, new=asg_key(ns.asg)))
            return
        visited = set(new_R.visited())
        extra = set(ns.asg) - visited
        if extra:
            self.fail("C05", "update", lab, "choices:extra_address", dict(history=h, extra=sorted(map(repr, extra))))
        fresh = []
        # UnknownChange on a switch index is a documented resampling trigger: with unknown tags the
        # choices below a switch may legitimately be fresh
        may_resample = spec.tags == "unknown" and bool(SWITCHY & node.kinds())
        # a switch whose executed branch changes regenerates that branch: everything below it is fresh
        changed_prefixes = []
        if SWITCHY & node.kinds():
            _, _, old_R = _ref_score(node, st.args, st.asg)
            ob = old_R.branches if old_R is not None else {}
            changed_prefixes = [q for q, k in new_R.branches.items() if ob.get(q, k) != k]
        def _under_changed(p_):
            return any(p_[: len(q)] == q for q in changed_prefixes)
        for p_, v in ns.asg.items():
            if (may_resample or _under_changed(p_)) and p_ not in c and p_ in st.asg and not _val_eq(v, st.asg[p_]):
                fresh.append(p_)
                continue
            if p_ in c:
                if not _val_eq(v, c[p_]):
                    self.fail("C05", "update", lab, "choices:constraint_not_installed", dict(history=h, path=repr(p_), got=v, want=c[p_]))
            elif p_ in st.asg:
                if not _val_eq(v, st.asg[p_]):
                    self.fail("C05", "update", lab, "choices:unconstrained_changed", dict(history=h, path=repr(p_), got=v, was=st.asg[p_]))
            else:
                fresh.append(p_)
        if not close(ns.score, new_ref):
            self.fail("C05", "update", lab, "score", dict(history=h, impl=ns.score, ref=new_ref))
        _, new_ret, _ = _ref_score(node, ns.args, ns.asg)
        if not cmp_ret(ns.retval, new_ret):
            self.fail("C05", "update", lab, "retval", dict(history=h, impl=repr(ns.retval), ref=repr(new_ret)))
        if (not fresh or self.weight_always) and not may_resample and old_ref is not None:
            if not close(w, new_ref - old_ref):
                self.fail("C05", "update", lab, "weight", dict(history=h, impl=w, ref=new_ref - old_ref))
        else:
            self.ctx.note("update_with_fresh_choices")
        # discard: exactly the previous values at the overwritten addresses (address set unchanged)
        if "discard" in res and set(ns.asg) == set(st.asg) and not may_resample and not changed_prefixes:
            try:
                disc = choices_to_asg(self.space.paths_all, res["discard"])
            except ValueError as e:
                self.fail("C05", "update", lab, "discard:malformed", dict(history=h, msg=str(e)))
                disc = None
            want = {p_: st.asg[p_] for p_ in c if p_ in st.asg}
            if disc is not None and (set(disc) != set(want) or any(not _val_eq(disc[p_], want[p_]) for p_ in want)):
                self.fail("C05", "update", lab, "discard", dict(history=h, impl={repr(k): v for k, v in disc.items()}, ref={repr(k): v for k, v in want.items()}))

    def oracle_regenerate(self, st, spec, res, ns, w, old_ref, new_ref, new_R):
        if "C07" not in self.props:
            return
        h = self.hist(st, spec)
        sel = spec.selection
        for p_, v in st.asg.items():
            if not ref_selected_path(sel, p_):
                if p_ not in ns.asg or not _val_eq(ns.asg[p_], v):
                    self.fail("C07", spec.kind, repr(sel[0]), "unselected_changed", dict(history=h, path=repr(p_), was=v, now=ns.asg.get(p_)))
        if new_ref is None:
            self.fail("C07", spec.kind, repr(sel[0]), "choices:missing_address", dict(history=h))
            return
        if not close(ns.score, new_ref):
            self.fail("C07", spec.kind, repr(sel[0]), "score", dict(history=h, impl=ns.score, ref=new_ref))
        if old_ref is not None and not close(w, new_ref - old_ref):
            self.fail("C07", spec.kind, repr(sel[0]), "weight", dict(history=h, impl=w, ref=new_ref - old_ref))
        if sel in (("none",),) and spec.new_args is None:
            if abs(w) > 1e-6 or not traces_equal(ns.trace, st.trace):
                self.fail("C07", spec.kind, "none", "not_identity", dict(history=h, weight=w))

    def oracle_regen_distribution(self, st, spec, results, new_args):
        """P(path) must equal the reference prior of the selected choices given current parents."""
        node = self.node
        sel = spec.selection
        mass = defaultdict(float)
        exp = {}
        for res, p in results:
            asg = choices_to_asg(self.space.paths_all, res["choices"])
            k = asg_key(asg)
            mass[k] += p.prob
            try:
                ret, R = ref_run(node, new_args, asg)
            except Missing:
                continue
            lp = sum(t[1] for t in R.terms if ref_selected_path(sel, t[0]))
            exp[k] = math.exp(lp)
        if not node.discrete:
            return
        bad = [(k, mass[k], exp.get(k)) for k in mass if k in exp and abs(mass[k] - exp[k]) > 1e-5]
        if bad:
            self.fail("C07", spec.kind, repr(sel[0]), "resample_distribution", dict(history=self.hist(st, spec), first=bad[:3]))

    def oracle_retdiff(self, st, spec, res, ns):
        h = self.hist(st, spec)
        tags = retdiff_tags(res["retdiff"])
        if tags is None:
            self.fail("C08", spec.kind, spec.label or spec.kind, "retdiff:non_diff_leaf", dict(history=h))
            return
        old_leaves = jax.tree_util.tree_leaves(_raw_ret(st))
        if len(old_leaves) != len(tags):
            self.ctx.note("retdiff_structure_differs")
            return
        for i, ((primal, nochange), old) in enumerate(zip(tags, old_leaves)):
            if nochange and not _leaf_eq(primal, old):
                self.fail("C08", spec.kind, spec.label or spec.kind, "retdiff:nochange_but_changed", dict(history=h, leaf=i, old=np.asarray(old).tolist(), new=np.asarray(primal).tolist()))
        # the primal of the retdiff is the new return value
        new_leaves = jax.tree_util.tree_leaves(res["retval"])
        if len(new_leaves) == len(tags):
            for i, ((primal, _), new) in enumerate(zip(tags, new_leaves)):
                if not _leaf_eq(primal, new):
                    self.fail("C08", spec.kind, spec.label or spec.kind, "retdiff:primal_not_new_retval", dict(history=h, leaf=i))

    def oracle_retag(self, st, spec, results):
        """all honest taggings of unchanged arguments give the same trace / weight / backward request"""
        node = self.node
        if {"switch", "or_else", "mix"} & node.kinds():
            # UnknownChange on a switch index is a documented resampling trigger
            self.ctx.note("retag_skipped_switch_trigger")
            return
        if any(p.n_branch for _, p in results):
            return
        base_res = results[0][0]
        jargs = to_jax_args(st.args)
        leaves, treedef = jax.tree_util.tree_flatten(jargs)
        k = len(leaves)
        kmax = 2 if self.tier == "quick" else 3
        if k == 0:
            return
        idxs = list(range(min(k, kmax)))
        req = self.space.build_request(spec)
        for bits in itertools.product([False, True], repeat=len(idxs)):
            tang = [NoChange] * k
            for i, b in zip(idxs, bits):
                tang[i] = UnknownChange if b else NoChange
            argdiffs = jax.tree_util.tree_unflatten(treedef, [Diff(l, t) for l, t in zip(leaves, tang)])
            fn = lambda: self.space._edit(self.key, st.trace, req, argdiffs)
            try:
                with seam.seam(self.space.n_cont):
                    paths, _ = seam.explore(fn, max_paths=8)
            except UNSUPPORTED as e:
                self.fail("C08", "update", "retag", f"exception:{type(e).__name__}", dict(history=self.hist(st, spec), tagging=bits, msg=str(e)[:200]))
                continue
            r = paths[0].result
            self.ctx.ev((node.name, "retag", st.key(), repr(spec.describe()), bits), nontrivial=any(bits))
            same = (
                traces_equal(r["trace"], base_res["trace"])
                and close(r["weight"], base_res["weight"])
                and _tree_close(r.get("discard"), base_res.get("discard"))
            )
            if not same:
                self.fail("C08", "update", "retag", "tagging_changes_result", dict(history=self.hist(st, spec), tagging=bits, w=float(np.asarray(r["weight"])), w0=float(np.asarray(base_res["weight"]))))

    def oracle_bwd(self, st, spec, res, ns, w):
        h = self.hist(st, spec)
        lab = spec.label or spec.kind
        try:
            back = self.space.apply_bwd(ns, res, st.args, tags="unknown" if spec.new_args is not None else "nochange")
        except UNSUPPORTED as e:
            self.fail("C06", spec.kind, lab, f"bwd_exception:{type(e).__name__}", dict(history=h, msg=str(e)[:300]))
            return
        except seam.TreeCapped:
            self.ctx.cap("bwd tree capped")
            return
        except Exception as e:
            self.fail("C06", spec.kind, lab, f"bwd_exception:{type(e).__name__}", dict(history=h, msg=str(e)[:300]))
            return
        self.ctx.transition(len(back))
        if len(back) != 1:
            # the backward move of an accepted edit is deterministic
            self.ctx.note("bwd_sampled")
        for bres, bp in back:
            basg = choices_to_asg(self.space.paths_all, bres["choices"])
            self.ctx.ev((self.node.name, "bwd", st.key(), repr(spec.describe()), asg_key(ns.asg)), nontrivial=True)
            if set(basg) != set(st.asg) or any(not _val_eq(basg[k], st.asg[k]) for k in st.asg):
                self.fail("C06", spec.kind, lab, "bwd:choices", dict(history=h, restored=asg_key(basg), original=asg_key(st.asg)))
                continue
            if not close(bres["score"], st.score):
                self.fail("C06", spec.kind, lab, "bwd:score", dict(history=h, restored=float(np.asarray(bres["score"])), original=st.score))
            if not cmp_ret(norm_ret(bres["retval"]), _as_ref(st.retval)):
                self.fail("C06", spec.kind, lab, "bwd:retval", dict(history=h, restored=repr(norm_ret(bres["retval"])), original=repr(st.retval)))
            bw = float(np.asarray(bres["weight"]))
            if not close(bw, -w):
                self.fail("C06", spec.kind, lab, "bwd:weight", dict(history=h, fwd=w, bwd=bw))


from .grammar import component_of  # noqa: E402  (re-exported)


SWITCHY = {"switch", "or_else", "mix"}


class _Proxy:
    """routes check_trace_against_ref failures through Explorer.fail for one property"""

    def __init__(self, ex: Explorer, prop: str):
        self.ex, self.prop = ex, prop

    def fail(self, component, op, input_class, symptom, detail=None):
        self.ex.fail(self.prop, op, input_class, symptom, dict(detail or {}))


def _raw_ret(state: State):
    tr = state.trace
    return tr.get_retval()


def _as_ref(normed):
    """a normalised real retval used as the reference side of cmp_ret"""
    return normed


def _val_eq(a, b):
    a, b = np.asarray(a), np.asarray(b)
    if a.dtype == np.bool_ or b.dtype == np.bool_ or (np.issubdtype(a.dtype, np.integer) and np.issubdtype(b.dtype, np.integer)):
        return bool(np.array_equal(a.astype(np.int64), b.astype(np.int64)))
    return close(a.astype(np.float64), b.astype(np.float64), 1e-5)


def _tree_close(a, b):
    la, lb = jax.tree_util.tree_leaves(a), jax.tree_util.tree_leaves(b)
    if len(la) != len(lb):
        return False
    return all(_leaf_eq(x, y) for x, y in zip(la, lb))
