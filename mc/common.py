"""Shared runner infrastructure: case enumeration, counting, violations, evidence, replay.

Every property module (mc/props/cNN.py) exposes

    PROPERTY = "Cnn"
    LEVEL    = "exploration" | "model_checking"
    RULE     = "<how cases are generated / what counts as distinct and non-trivial>"
    ASSUMPTIONS = [...]
    def cases(tier: str, seed: int) -> Iterable[Case]

A Case is one unit of exhaustive exploration (typically: one program x one operation family).
`Case.run(ctx)` explores it completely and reports through `ctx`:

    ctx.ev(key, nontrivial=True)   one evaluation (an execution of real library code compared
                                   with the oracle); `key` identifies the distinct case.
    ctx.state(key) / ctx.transition()   explicit-state bookkeeping (model_checking level)
    ctx.sample(obj)                keep a written-out example for the evidence file
    ctx.fail(**fields)             a violation (structured, see findings.py)
    ctx.note(name, n=1)            free counters that end up in coverage

The runner executes all cases (optionally in worker processes), matches violations against
known_findings.json (never written at run time), writes evidence/<id>.json and replay files and
prints the VIOLATION / KNOWN-FINDING lines the interface requires.
"""

from __future__ import annotations

import dataclasses
import hashlib
import json
import os
import sys
import time
import traceback
from typing import Any, Callable, Iterable

ROOT = os.path.dirname(os.path.dirname(os.path.abspath(__file__)))
TOL = 1e-4  # constant of the harness: |x-y| <= TOL*max(1,|x|,|y|)


def close(x, y, tol=TOL) -> bool:
    import numpy as np

    x = np.asarray(x, dtype=np.float64)
    y = np.asarray(y, dtype=np.float64)
    if x.shape != y.shape:
        try:
            x, y = np.broadcast_arrays(x, y)
        except ValueError:
            return False
    both_inf = np.isinf(x) & np.isinf(y) & (np.sign(x) == np.sign(y))
    both_nan = np.isnan(x) & np.isnan(y)
    with np.errstate(invalid="ignore"):
        ok = np.abs(x - y) <= tol * np.maximum(1.0, np.maximum(np.abs(x), np.abs(y)))
    return bool(np.all(ok | both_inf | both_nan))


def jsonable(o, depth=0):
    """Best-effort conversion of harness objects to JSON-serialisable values."""
    import numpy as np

    if depth > 12:
        return repr(o)
    if o is None or isinstance(o, (bool, int, float, str)):
        if isinstance(o, float) and (o != o or o in (float("inf"), float("-inf"))):
            return repr(o)
        return o
    if isinstance(o, (np.bool_,)):
        return bool(o)
    if isinstance(o, np.integer):
        return int(o)
    if isinstance(o, np.floating):
        return jsonable(float(o))
    if isinstance(o, dict):
        return {str(k): jsonable(v, depth + 1) for k, v in o.items()}
    if isinstance(o, (list, tuple, set, frozenset)):
        return [jsonable(v, depth + 1) for v in o]
    if hasattr(o, "tolist") and hasattr(o, "shape"):
        try:
            return jsonable(np.asarray(o).tolist(), depth + 1)
        except Exception:
            return repr(o)
    if dataclasses.is_dataclass(o) and not isinstance(o, type):
        try:
            return {
                "__type__": type(o).__name__,
                **{
                    f.name: jsonable(getattr(o, f.name), depth + 1)
                    for f in dataclasses.fields(o)
                },
            }
        except Exception:
            return repr(o)
    return repr(o)


@dataclasses.dataclass
class Case:
    id: str
    run: Callable[["Ctx"], None]
    describe: Any = None  # written-out description for samples / replays


class Ctx:
    """Per-case reporting context (picklable result via .result())."""

    MAX_SAMPLES = 3
    MAX_FAILS = 400
    MAX_PER_SIG = 3

    def __init__(self, prop: str, case_id: str, tier: str, seed: int):
        self.prop = prop
        self.case_id = case_id
        self.tier = tier
        self.seed = seed
        self.evaluations = 0
        self.keys: set[str] = set()
        self.nontrivial: set[str] = set()
        self.states: set[str] = set()
        self.transitions = 0
        self.samples: list[Any] = []
        self.fails: list[dict] = []
        self.fail_count = 0
        self._sig_count: dict = {}
        self.notes: dict[str, int] = {}
        self.outcomes: set[str] = set()
        self.caps: list[str] = []
        self.exhaustive = True

    @staticmethod
    def _h(key) -> str:
        if not isinstance(key, str):
            key = json.dumps(jsonable(key), sort_keys=True)
        return hashlib.blake2b(key.encode(), digest_size=10).hexdigest()

    def ev(self, key, nontrivial: bool = True, n: int = 1):
        self.evaluations += n
        h = self._h(key)
        self.keys.add(h)
        if nontrivial:
            self.nontrivial.add(h)

    def state(self, key):
        self.states.add(self._h(key))

    def transition(self, n: int = 1):
        self.transitions += n

    def outcome(self, key):
        self.outcomes.add(self._h(key))

    def sample(self, obj):
        if len(self.samples) < self.MAX_SAMPLES:
            self.samples.append(jsonable(obj))

    def note(self, name: str, n: int = 1):
        self.notes[name] = self.notes.get(name, 0) + n

    def cap(self, what: str):
        self.caps.append(what)
        self.exhaustive = False

    def fail(self, component: str, op: str, input_class: str, symptom: str, detail: Any = None):
        """Report a violation.  The four structured fields form the signature."""
        self.fail_count += 1
        sig = (component, op, input_class, symptom)
        self._sig_count[sig] = self._sig_count.get(sig, 0) + 1
        # keep a few examples per signature so that one noisy signature cannot crowd out another
        if self._sig_count[sig] <= self.MAX_PER_SIG and len(self.fails) < self.MAX_FAILS:
            self.fails.append(
                dict(
                    property=self.prop,
                    case=self.case_id,
                    component=component,
                    op=op,
                    input_class=input_class,
                    symptom=symptom,
                    detail=jsonable(detail),
                )
            )

    def result(self) -> dict:
        return dict(
            case=self.case_id,
            evaluations=self.evaluations,
            keys=sorted(self.keys),
            nontrivial=sorted(self.nontrivial),
            states=sorted(self.states),
            transitions=self.transitions,
            samples=self.samples,
            fails=self.fails,
            fail_count=self.fail_count,
            notes=self.notes,
            outcomes=sorted(self.outcomes),
            caps=self.caps,
            exhaustive=self.exhaustive,
        )


def signature(f: dict) -> str:
    return "|".join([f["property"], f["component"], f["op"], f["input_class"], f["symptom"]])


# --------------------------------------------------------------------------------------------
# worker entry (top-level so it can be used with multiprocessing 'spawn')


def _worker_init():
    # one core per worker: XLA compile/run is effectively single-threaded for these tiny programs and
    # unpinned workers spend most of their time in futex contention
    try:
        import multiprocessing as mp

        ident = mp.current_process()._identity
        # (opt-in: concurrent ./check runs would otherwise all pin to the same low-numbered CPUs)
        if ident and hasattr(os, "sched_setaffinity") and os.environ.get("VERIF_PIN"):
            cpus = sorted(os.sched_getaffinity(0))
            if len(cpus) > 1:
                os.sched_setaffinity(0, {cpus[(ident[0] - 1) % len(cpus)]})
    except Exception:
        pass
    os.environ.setdefault("JAX_PLATFORMS", "cpu")
    os.environ.setdefault(
        "XLA_FLAGS",
        "--xla_cpu_multi_thread_eigen=false intra_op_parallelism_threads=1",
    )


_CASE_CACHE: dict = {}


def run_cases_in_worker(args):
    modname, tier, seed, case_ids = args
    _worker_init()
    import importlib

    mod = importlib.import_module(modname)
    ck = (modname, tier, seed)
    if ck not in _CASE_CACHE:
        _CASE_CACHE[ck] = {c.id: c for c in mod.cases(tier, seed)}
    table = _CASE_CACHE[ck]
    out = []
    for cid in case_ids:
        out.append(run_one(mod.PROPERTY, table[cid], tier, seed))
    return out


def run_one(prop: str, case: Case, tier: str, seed: int) -> dict:
    ctx = Ctx(prop, case.id, tier, seed)
    t0 = time.time()
    try:
        case.run(ctx)
    except HarnessError:
        raise
    except Exception as e:  # an unexpected exception escaping a case is a harness defect
        tb = traceback.format_exc()
        raise HarnessError(f"case {case.id} raised {type(e).__name__}: {e}\n{tb}") from e
    r = ctx.result()
    r["wall_s"] = time.time() - t0
    r["describe"] = jsonable(case.describe)
    return r


class HarnessError(Exception):
    """The harness itself misbehaved (divergent replay, vacuous exploration, ...)."""


# --------------------------------------------------------------------------------------------


def load_findings():
    path = os.path.join(ROOT, "known_findings.json")
    if not os.path.exists(path):
        return {"findings": [], "fixed": []}
    with open(path) as f:
        return json.load(f)


def match_finding(fail: dict, findings: list[dict]):
    """A finding matches when every field it lists equals the violation's field.

    Fields: property (required), component, op, input_class, symptom.  A field may end in '*'
    for a prefix match.  Nothing else is ever matched, so a different violation of the same
    property is still reported.
    """
    for fd in findings:
        fp = fd.get("property")
        if fail["property"] not in (fp if isinstance(fp, list) else [fp]):
            continue
        ok = True
        if "component_contains" in fd:
            parts = set(fail["component"].split("+"))
            need = fd["component_contains"]
            need = [need] if isinstance(need, str) else list(need)
            if not any(n in parts for n in need):
                continue
        if "component_all" in fd:
            parts = set(fail["component"].split("+"))
            if not all(n in parts for n in fd["component_all"]):
                continue
        if "program" in fd:
            prog = (fail.get("detail") or {}).get("program") if isinstance(fail.get("detail"), dict) else None
            if prog != fd["program"]:
                continue
        for k in ("component", "op", "input_class", "symptom"):
            if k not in fd:
                continue
            pat = fd[k]
            val = fail[k]
            if pat.startswith("*") and pat.endswith("*") and len(pat) > 2:
                if pat[1:-1] not in val:
                    ok = False
                    break
            elif pat.startswith("*") and len(pat) > 1:
                if not val.endswith(pat[1:]):
                    ok = False
                    break
            elif pat.endswith("*"):
                if not val.startswith(pat[:-1]):
                    ok = False
                    break
            elif pat != val:
                ok = False
                break
        if ok:
            return fd
    return None


def run_property(mod, tier: str, seed: int, replay: str | None = None, jobs: int | None = None) -> int:
    import importlib

    prop = mod.PROPERTY
    t0 = time.time()
    all_cases = list(mod.cases(tier, seed))
    if replay:
        with open(replay) as f:
            rp = json.load(f)
        want = rp["case"]
        all_cases = [c for c in all_cases if c.id == want]
        if not all_cases:
            # the case may only exist in the other tier
            other = "thorough" if tier == "quick" else "quick"
            all_cases = [c for c in mod.cases(other, seed) if c.id == want]
            tier_for_run = other
        else:
            tier_for_run = tier
        if not all_cases:
            print(f"replay: case {want!r} not found in property {prop}")
            return 2
    else:
        tier_for_run = tier

    stride = int(os.environ.get("VERIF_CASE_STRIDE", "0") or 0)
    if stride > 1 and not replay:
        # smoke-testing aid only (never set by the registered commands): run every k-th case
        all_cases = all_cases[::stride]
    match = os.environ.get("VERIF_CASE_MATCH", "")
    if match and not replay:
        # smoke-testing aid only (never set by the registered commands): cases whose id contains the text
        all_cases = [c for c in all_cases if match in c.id]
    ids = [c.id for c in all_cases]
    if len(set(ids)) != len(ids):
        dup = sorted({i for i in ids if ids.count(i) > 1})
        raise HarnessError(f"duplicate case ids in {prop}: {dup[:5]}")

    if jobs is None:
        jobs = int(os.environ.get("VERIF_JOBS", "0") or 0)
    if jobs == 0:
        jobs = getattr(mod, "JOBS", {}).get(tier_for_run, 1) if isinstance(getattr(mod, "JOBS", None), dict) else 1
    jobs = max(1, min(jobs, len(all_cases)))

    results: list[dict] = []
    if jobs == 1:
        for c in all_cases:
            results.append(run_one(prop, c, tier_for_run, seed))
    else:
        import multiprocessing as mp
        from concurrent.futures import ProcessPoolExecutor, as_completed
        from concurrent.futures.process import BrokenProcessPool

        ctxmp = mp.get_context("spawn")
        # one case per task, dynamically scheduled (results are re-ordered below, so the report is
        # independent of scheduling).  A worker that dies (segfault, out of memory maps) breaks the pool
        # and is reported as a harness error instead of hanging the run.
        try:
            with ProcessPoolExecutor(max_workers=jobs, mp_context=ctxmp) as pool:
                futs = [pool.submit(run_cases_in_worker, (mod.__name__, tier_for_run, seed, [cid])) for cid in ids]
                for fut in as_completed(futs):
                    results.extend(fut.result())
        except BrokenProcessPool as e:
            raise HarnessError(f"a worker process died while running {prop}: {e}") from e
        order = {cid: i for i, cid in enumerate(ids)}
        results.sort(key=lambda r: order[r["case"]])

    return report(mod, tier, seed, results, time.time() - t0, replay)


def report(mod, tier, seed, results, wall, replay=None) -> int:
    prop = mod.PROPERTY
    level = mod.LEVEL
    findings = load_findings()
    evaluations = sum(r["evaluations"] for r in results)
    keys, nontriv, states, outcomes = set(), set(), set(), set()
    transitions = 0
    samples, fails, caps = [], [], []
    notes: dict[str, int] = {}
    fail_total = 0
    for r in results:
        keys.update(r["case"] + ":" + k for k in r["keys"])
        nontriv.update(r["case"] + ":" + k for k in r["nontrivial"])
        states.update(r["case"] + ":" + k for k in r["states"])
        outcomes.update(r["outcomes"])
        transitions += r["transitions"]
        if r["samples"] and len(samples) < 6:
            samples.append({"case": r["case"], "describe": r.get("describe"), "examples": r["samples"][:2]})
        fails.extend(r["fails"])
        fail_total += r["fail_count"]
        caps.extend(f'{r["case"]}: {c}' for c in r["caps"])
        for k, v in r["notes"].items():
            notes[k] = notes.get(k, 0) + v

    known, unknown = [], []
    for f in fails:
        fd = match_finding(f, findings.get("findings", []))
        (known if fd else unknown).append((f, fd))

    printed = set()
    for f, fd in known:
        key = fd.get("id") or json.dumps(fd, sort_keys=True)
        if key in printed:
            continue
        printed.add(key)
        print(f"KNOWN-FINDING: property={prop} {fd.get('what', fd.get('description', signature(f)))}")

    rc = 0
    replay_paths = []
    if unknown:
        rc = 1
        seen_sig = set()
        rdir = os.path.join(ROOT, "replays", prop)
        os.makedirs(rdir, exist_ok=True)
        for f, _ in unknown:
            sig = signature(f)
            if sig in seen_sig:
                continue
            seen_sig.add(sig)
            h = hashlib.blake2b((sig + f["case"]).encode(), digest_size=6).hexdigest()
            path = os.path.join(rdir, f"{h}.json")
            with open(path, "w") as fh:
                json.dump(
                    dict(property=prop, case=f["case"], seed=seed, tier=tier, signature=sig, failure=f),
                    fh,
                    indent=1,
                )
            replay_paths.append(path)
            print(f"VIOLATION property={prop} replay={path}")
            print(f"  signature: {sig}")
            d = json.dumps(f.get("detail"))
            print(f"  detail: {d[:1500]}")

    if replay is None:
        n_nontriv = len(nontriv)
        if evaluations == 0 or n_nontriv < 2:
            raise HarnessError(
                f"vacuous exploration for {prop}: evaluations={evaluations} distinct_nontrivial={n_nontriv}"
            )
        coverage = dict(
            evaluations=evaluations,
            distinct_nontrivial=n_nontriv,
            distinct_cases=len(keys),
            rule=mod.RULE,
            samples=samples or [{"note": "no samples recorded"}],
            cases=len(results),
            distinct_outcomes=len(outcomes),
            exhaustive=(not caps),
            caps_hit=caps[:20],
            known_findings_matched=sorted(printed),
            bounds=getattr(mod, "BOUNDS", {}).get(tier, {}) if isinstance(getattr(mod, "BOUNDS", None), dict) else {},
            **{f"n_{k}": v for k, v in sorted(notes.items())},
        )
        if level == "model_checking":
            coverage.update(
                states=max(1, len(states)),
                transitions=max(1, transitions),
                traces_validated_against_impl=transitions,
            )
        ev = dict(
            property_id=prop,
            tier=tier,
            seed=seed,
            level=level,
            coverage=coverage,
            assumptions=list(getattr(mod, "ASSUMPTIONS", [])),
            wall_s=round(wall, 3),
            violations=len(unknown),
        )
        edir = os.path.join(ROOT, "evidence")
        os.makedirs(edir, exist_ok=True)
        validate_evidence(ev)
        tmp = os.path.join(edir, f".{prop}.json.tmp")
        with open(tmp, "w") as fh:
            json.dump(ev, fh, indent=1)
        os.replace(tmp, os.path.join(edir, f"{prop}.json"))

    if os.environ.get("VERIF_TIMING"):
        for r in sorted(results, key=lambda r: -r["wall_s"])[:12]:
            print(f"  timing {r['wall_s']:7.1f}s ev={r['evaluations']:6d} {r['case']}")
    status = "VIOLATIONS" if rc else "ok"
    print(
        f"[{prop}] {status}: tier={tier} seed={seed} cases={len(results)} evaluations={evaluations} "
        f"distinct_nontrivial={len(nontriv)} states={len(states)} transitions={transitions} "
        f"outcomes={len(outcomes)} known={len(known)} new={len(unknown)} wall={wall:.1f}s"
    )
    return rc


def validate_evidence(ev: dict):
    schema_path = "/root/.vp/EVIDENCE.schema.json"
    try:
        import jsonschema
    except Exception:
        return
    if not os.path.exists(schema_path):
        schema_path = os.path.join(ROOT, "tools", "EVIDENCE.schema.json")
        if not os.path.exists(schema_path):
            return
    with open(schema_path) as f:
        schema = json.load(f)
    jsonschema.validate(ev, schema)
