"""Per-combinator exploration: runs the generic engines (simulate tree, assess over all assignments,
importance over partial constraints, update BFS, project) on a targeted program set.  Used by the
combinator-specific properties (C10-C16, C34, C35...)."""

from __future__ import annotations

import math

import jax
import jax.numpy as jnp
import numpy as np

from . import gfi, grammar, seam
from .common import close
from .grammar import Missing, component_of, ref_run
from .harness import Prog, args_key, base_key, cmp_ret, norm_ret, static_part, to_jax_args
from .space import Space, build_selection, ref_selected, static_addresses


def selection_alphabet(universe, tier):
    sas = static_addresses(universe)
    sels = [("none",), ("all",)]
    for a in sas[: (3 if tier == "quick" else 8)]:
        sels.append(("at", a))
        sels.append(("not", ("at", a)))
    if len(sas) >= 2:
        sels.append(("or", ("at", sas[0]), ("at", sas[-1])))
        sels.append(("and", ("not", ("at", sas[0])), ("at", sas[-1][:1])))
    if tier != "quick":
        for a in sas[:4]:
            if len(a) >= 2:
                sels.append(("wild", a[1:]))
    # de-duplicate
    out, seen = [], set()
    for s in sels:
        if repr(s) not in seen:
            seen.add(repr(s))
            out.append(s)
    return out


def project_op(ctx, node, tier, seed, args_list=None, static_args=False, max_states=24):
    """project(S) == sum of the selected log-density terms, on every state of the simulate tree."""
    prog = Prog(node, n_cont=2)
    key = base_key(seed)
    alph = args_list or grammar.rotate(node.arg_alphabet(), seed)[: (1 if tier == "quick" else 2)]
    comp = component_of(node)
    gf = prog.gf
    for args in alph:
        try:
            tree = gfi.SimTree(prog, args, key, max_paths=512, static_args=static_args)
        except seam.TreeCapped as e:
            ctx.cap(str(e))
            continue
        except Exception as e:
            # simulate itself failed: reported by the caller's simulate oracle, nothing to project
            ctx.note("project_skipped_simulate_raised")
            continue
        sels = selection_alphabet(tree.universe, tier)
        proj = jax.jit(lambda tr, sel: tr.project(key, sel))
        paths = tree.paths[:max_states]
        if len(tree.paths) > max_states:
            ctx.note("project_states_beyond_cap", len(tree.paths) - max_states)
        for p in paths:
            asg = tree.path_asg(p)
            try:
                ret, R = ref_run(node, args, asg)
            except Missing:
                continue
            score = R.score()
            vals = {}
            for sd in sels:
                k = (node.name, args_key(args), gfi.asg_key(asg), repr(sd))
                sel = build_selection(sd)
                try:
                    w = float(np.asarray(proj(p.result["trace"], sel)))
                except NotImplementedError:
                    ctx.note("project_unsupported")
                    if node.project_ok:
                        ctx.fail(comp, "project", sd[0], "exception:NotImplementedError", dict(program=node.name))
                    break
                except Exception as e:
                    ctx.fail(comp, "project", sd[0], f"exception:{type(e).__name__}", dict(program=node.name, args=args_key(args), selection=repr(sd), msg=str(e)[:300]))
                    continue
                ref = sum(t[1] for t in R.terms if ref_selected(sd, static_part(t[0])))
                ctx.ev(k, nontrivial=0 < sum(1 for t in R.terms if ref_selected(sd, static_part(t[0]))) < max(1, len(R.terms)) or sd[0] in ("all", "none"))
                vals[repr(sd)] = w
                det = dict(program=node.name, args=args_key(args), asg=gfi.asg_key(asg), selection=repr(sd), impl=w, ref=ref)
                if not close(w, ref):
                    ctx.fail(comp, "project", sd[0], "weight", det)
                if sd == ("all",) and not close(w, float(np.asarray(p.result["score"]))):
                    ctx.fail(comp, "project", "all", "ne_score", det)
                if sd == ("none",) and abs(w) > 1e-6:
                    ctx.fail(comp, "project", "none", "nonzero", det)
            for sd in sels:
                if sd[0] == "not" and repr(sd) in vals and repr(sd[1]) in vals:
                    if not close(vals[repr(sd)] + vals[repr(sd[1])], float(np.asarray(p.result["score"]))):
                        ctx.fail(comp, "project", "complement", "s_plus_not_s_ne_score", dict(program=node.name, args=args_key(args), asg=gfi.asg_key(asg), selection=repr(sd)))
        ctx.sample(dict(program=node.name, args=args_key(args), selections=[repr(s) for s in sels[:4]], states=len(paths)))


def run_ops(ctx, node, tier, seed, ops=("simulate", "assess", "importance", "update")):
    from .props import c02, c03, c04

    if "simulate" in ops:
        c04._run(node, tier, seed)(ctx)
    if "assess" in ops:
        c02._run(node, tier, seed)(ctx)
    if "importance" in ops:
        c03._run(node, tier, seed)(ctx)
    if "update" in ops:
        from .bfs import Explorer

        Explorer(ctx, node, tier, seed, {"C05", "C01"}, kinds=("update",)).run()
    if "project" in ops:
        project_op(ctx, node, tier, seed)
