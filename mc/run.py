"""./check entry: python -m mc.run Cxx [--tier quick|thorough] [--replay f] [--jobs N]"""

from __future__ import annotations

import argparse
import importlib
import os
import sys
import traceback


def main(argv=None) -> int:
    ap = argparse.ArgumentParser()
    ap.add_argument("property")
    ap.add_argument("--tier", default=os.environ.get("VERIF_TIER", "quick"), choices=["quick", "thorough"])
    ap.add_argument("--replay", default=None)
    ap.add_argument("--jobs", type=int, default=None)
    ap.add_argument("--seed", type=int, default=None)
    a = ap.parse_args(argv)
    seed = a.seed if a.seed is not None else int(os.environ.get("VERIF_SEED", "0") or 0)
    pid = a.property.upper()
    if pid == "SELFTEST":
        from . import selftest

        return selftest.main()
    from . import common

    try:
        mod = importlib.import_module(f"mc.props.{pid.lower()}")
    except ModuleNotFoundError as e:
        print(f"no check module for {pid}: {e}")
        return 2
    try:
        return common.run_property(mod, a.tier, seed, replay=a.replay, jobs=a.jobs)
    except common.HarnessError as e:
        print(f"HARNESS-ERROR property={pid}: {e}")
        return 3
    except Exception:
        traceback.print_exc()
        print(f"HARNESS-ERROR property={pid}: unexpected exception")
        return 3


if __name__ == "__main__":
    sys.exit(main())
