"""Reference model and glue for the inference-library properties (C25, C26).

`Net` is a finite discrete Bayesian network written in plain Python/numpy (float64): an ordered list
of sites `(addr, values, probs_fn(env, args))`.  It is the *independent* oracle: joint tables,
marginals, per-site conditional terms, the density of the "internal proposal" (ancestral sampling
with some addresses clamped).  The genjax program it describes is written separately by hand next
to it; a transcription mismatch would show up as a (false) violation, never as a silent pass.
"""

from __future__ import annotations

import itertools
import math

import numpy as np

from .harness import lookup

FLIP = (True, False)


def cat(n):
    return tuple(range(n))


class Net:
    def __init__(self, name, sites):
        # sites: list of (addr, values, probs_fn(env, args) -> sequence aligned with values)
        self.name = name
        self.sites = list(sites)
        self.addrs = [s[0] for s in self.sites]
        self.values = {s[0]: tuple(s[1]) for s in self.sites}

    # ---- terms ------------------------------------------------------------------------------
    def terms(self, asg: dict, args) -> dict:
        """addr -> conditional probability of asg[addr] given its parents (float64)."""
        env, out = {}, {}
        for addr, values, fn in self.sites:
            pr = np.asarray(fn(env, args), dtype=np.float64)
            v = asg[addr]
            out[addr] = float(pr[values.index(v)])
            env[addr] = v
        return out

    def logp(self, asg: dict, args) -> float:
        return float(sum(_log(t) for t in self.terms(asg, args).values()))

    def logterms(self, asg: dict, args, addrs) -> float:
        t = self.terms(asg, args)
        return float(sum(_log(t[a]) for a in addrs))

    # ---- tables -----------------------------------------------------------------------------
    def assignments(self, addrs=None, fixed: dict | None = None):
        addrs = self.addrs if addrs is None else list(addrs)
        fixed = fixed or {}
        free = [a for a in addrs if a not in fixed]
        for combo in itertools.product(*[self.values[a] for a in free]):
            asg = dict(fixed)
            asg.update(zip(free, combo))
            yield asg

    def joint(self, args) -> dict:
        """tuple(values in site order) -> probability"""
        return {tuple(a[x] for x in self.addrs): math.exp(self.logp(a, args)) for a in self.assignments()}

    def marginal(self, addrs, args) -> dict:
        """tuple(values of addrs, in the order given) -> probability"""
        out = {}
        for a in self.assignments():
            k = tuple(a[x] for x in addrs)
            out[k] = out.get(k, 0.0) + math.exp(self.logp(a, args))
        return out

    def parents_closed(self, addrs, args_alphabet) -> bool:
        """True iff no site in `addrs` is influenced by a site outside `addrs`: decided
        semantically - every selected site's probability vector is the same for all values of the
        unselected sites (given equal selected values)."""
        addrs = set(addrs)
        for args in args_alphabet:
            seen = {}
            for asg in self.assignments():
                env = {}
                for addr, values, fn in self.sites:
                    if addr in addrs:
                        pr = tuple(np.round(np.asarray(fn(env, args), dtype=np.float64), 12))
                        k = (addr, tuple((a, env[a]) for a in self.addrs if a in env and a in addrs))
                        if seen.setdefault(k, pr) != pr:
                            return False
                    env[addr] = asg[addr]
        return True


def _log(p):
    return math.log(p) if p > 0 else -math.inf


def logsumexp(xs):
    xs = np.asarray(xs, dtype=np.float64)
    m = np.max(xs)
    if not np.isfinite(m):
        return float(m)
    return float(m + np.log(np.sum(np.exp(xs - m))))


# ---------------------------------------------------------------------------------------------
# reading real choice maps (public API lookups)


def read(chm, addrs):
    """inside jit: list aligned with addrs of None | (value, flag)"""
    return [lookup(chm, (a,)) for a in addrs]


def to_py(v):
    a = np.asarray(v)
    if a.dtype == np.bool_:
        return bool(a)
    if np.issubdtype(a.dtype, np.integer):
        return int(a)
    return float(a)


def decode(addrs, flat, index=None):
    """numpy side: dict addr -> python value for present entries (flag true); `index` selects a
    particle of a batched read."""
    out = {}
    for a, r in zip(addrs, flat):
        if r is None:
            continue
        v, f = r
        v, f = np.asarray(v), np.asarray(f)
        if index is not None:
            v = v[index]
            f = f[index] if f.shape else f
        if bool(f):
            out[a] = to_py(v)
    return out


def vkey(asg: dict, addrs=None):
    addrs = sorted(asg) if addrs is None else addrs
    return tuple((a, asg[a]) for a in addrs if a in asg)


def blame(exc, default):
    """Coarse, stable attribution of an exception: qualified name of the innermost frame inside
    genjax's inference package (e.g. `ImportanceK.run_csmc`, `stack_to_first_dim`), else `default`."""
    best = None
    tb = exc.__traceback__
    while tb is not None:
        code = tb.tb_frame.f_code
        if "/genjax/_src/inference/" in code.co_filename.replace("\\", "/"):
            best = getattr(code, "co_qualname", code.co_name)
        tb = tb.tb_next
    return best or default
