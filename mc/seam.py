"""E1 - the randomness seam and the stateless path explorer.

All randomness in genjax enters through `tfd.Distribution.sample(seed=key, ...)` and (only in
custom/discrete_hmm.py) `jax.random.categorical(key, logits)`.  `install()` replaces both, in this
process only, by a `jax.pure_callback` into `_host_choose`, so that every dynamic sampling call -
eager, under jit, inside lax.scan/cond/switch, under jax.vmap - becomes a *choice point* the
explorer decides.  A choice point is identified by the key bytes it consumes (+ element index for
batched draws), never by call order.

Shared keys are modelled faithfully: each key owns one uniform u in [0,1).  A site is a partition of
[0,1) into cells (cumulative probabilities); a decision is an interval of u.  Two sampling calls
consuming the same key therefore see the *same* u (comonotone outcomes), exactly as identical
threefry bits would; independent keys are independent choice points.

Path probability = product over visited keys of the final interval length.  For a fully discrete
execution the explorer checks  sum P(path) == 1  which proves the tree was enumerated completely.
"""

from __future__ import annotations

import contextlib
import threading
from typing import Any, Callable

import jax
import jax.numpy as jnp
import numpy as np
from tensorflow_probability.substrates import jax as tfp

tfd = tfp.distributions

EPS = 1e-9

# standardized continuous alphabets (inputs, not probabilities)
Z_ALPHABET = (0.4, -1.3, 2.1)
U_ALPHABET = (0.35, 0.8, 0.1)


class _State:
    def __init__(self):
        self.active = False
        self.table: dict = {}
        self.visits: dict = {}
        self.branches: list = []
        self.order: list = []
        self.unknown: dict = {}
        self.n_cont = 3
        self.log_params: list | None = None


_S = _State()
_orig_sample = tfd.Distribution.sample
_orig_categorical = jax.random.categorical
_installed = False


def _key_data(seed):
    if hasattr(seed, "dtype") and jnp.issubdtype(seed.dtype, jax.dtypes.prng_key):
        return jax.random.key_data(seed)
    return jnp.asarray(seed)


def _host_choose(kind_code, key_data, cum):
    """key_data: (V..., 2) uint32 with size-1 dims where unbatched; cum: (V..., B..., K) cumulative
    upper bounds of the K cells (last == 1).  Returns int32 indices of shape broadcast(V...) + B...
    """
    kd = np.asarray(key_data)
    cum = np.asarray(cum, dtype=np.float64)
    nv = kd.ndim - 1
    vshape = np.broadcast_shapes(kd.shape[:-1], cum.shape[:nv])
    kd = np.broadcast_to(kd, vshape + (kd.shape[-1],))
    cum = np.broadcast_to(cum, vshape + cum.shape[nv:])
    bshape = cum.shape[nv:-1]
    out = np.zeros(vshape + bshape, dtype=np.int32)
    K = cum.shape[-1]
    for v in np.ndindex(*vshape):
        kbytes = kd[v].tobytes()
        for bi, b in enumerate(np.ndindex(*bshape)):
            site = (kbytes, bi)
            c = cum[v + b]
            out[v + b] = _decide(site, c, K, int(kind_code))
    return out


def _decide(site, c, K, kind_code):
    st = _S
    lo, hi = st.table.get(site, (0.0, 1.0))
    if site not in st.visits:
        st.order.append(site)
    # cells intersecting the current interval with positive length
    cells = []
    prev = 0.0
    for j in range(K):
        a, b = max(lo, prev), min(hi, float(c[j]))
        if b - a > EPS:
            cells.append((j, a, b))
        prev = float(c[j])
    if not cells:
        # numerically empty: fall back to the last cell containing lo
        j = int(np.searchsorted(c, lo, side="right"))
        j = min(j, K - 1)
        cells = [(j, lo, hi)]
    if len(cells) > 1:
        st.branches.append((site, [(a, b) for (_, a, b) in cells], kind_code))
        j, a, b = cells[0]
        st.table[site] = (a, b)
    else:
        j, a, b = cells[0]
        st.table[site] = (a, b)
    st.visits.setdefault(site, []).append((tuple(float(x) for x in c), j))
    return j


def _callback(kind_code, key_data, cum, out_shape):
    return jax.pure_callback(
        lambda kd, cm: _host_choose(kind_code, kd, cm),
        jax.ShapeDtypeStruct(out_shape, jnp.int32),
        key_data,
        cum,
        vmap_method="expand_dims",
    )


# kind codes: 0 = finite discrete (probabilities), 1 = continuous alphabet (inputs)


def _finite_cum(probs):
    probs = jnp.asarray(probs, dtype=jnp.float32)
    cum = jnp.cumsum(probs, axis=-1)
    # make the last bound exactly one so that cells cover [0,1)
    total = cum[..., -1:]
    cum = cum / total
    return cum.at[..., -1].set(1.0)


def _uniform_cum(shape, n):
    base = jnp.arange(1, n + 1, dtype=jnp.float32) / n
    return jnp.broadcast_to(base, tuple(shape) + (n,))


def _patched_sample(self, sample_shape=(), seed=None, name="sample", **kwargs):
    if not _S.active or seed is None:
        return _orig_sample(self, sample_shape=sample_shape, seed=seed, name=name, **kwargs)
    kind = type(self).__name__
    try:
        sample_shape = tuple(int(s) for s in np.atleast_1d(np.asarray(sample_shape)).tolist()) if np.size(sample_shape) else ()
    except Exception:
        sample_shape = tuple(sample_shape)
    kd = _key_data(seed)
    n = _S.n_cont
    if kind == "Bernoulli":
        p = self.probs_parameter()
        p = jnp.broadcast_to(p, sample_shape + p.shape)
        probs = jnp.stack([p, 1.0 - p], axis=-1)  # cell 0 = True/1, cell 1 = False/0
        idx = _callback(0, kd, _finite_cum(probs), p.shape)
        val = idx == 0
        return val.astype(self.dtype)
    if kind == "Categorical":
        p = self.probs_parameter()
        p = jnp.broadcast_to(p, sample_shape + p.shape)
        idx = _callback(0, kd, _finite_cum(p), p.shape[:-1])
        return idx.astype(self.dtype)
    if kind == "Normal":
        loc, scale = jnp.broadcast_arrays(jnp.asarray(self.loc), jnp.asarray(self.scale))
        shape = sample_shape + loc.shape
        idx = _callback(1, kd, _uniform_cum(shape, n), shape)
        z = jnp.asarray(Z_ALPHABET[:n], dtype=loc.dtype)[idx]
        return jnp.broadcast_to(loc, shape) + jnp.broadcast_to(scale, shape) * z
    if kind == "Uniform":
        low, high = jnp.broadcast_arrays(jnp.asarray(self.low), jnp.asarray(self.high))
        shape = sample_shape + low.shape
        idx = _callback(1, kd, _uniform_cum(shape, n), shape)
        u = jnp.asarray(U_ALPHABET[:n], dtype=low.dtype)[idx]
        return jnp.broadcast_to(low, shape) + jnp.broadcast_to(high - low, shape) * u
    if kind == "MultivariateNormalDiag":
        loc = jnp.asarray(self.loc)
        sd = jnp.asarray(self.scale.diag_part()) if hasattr(self.scale, "diag_part") else jnp.ones_like(loc)
        loc, sd = jnp.broadcast_arrays(loc, sd)
        shape = sample_shape + loc.shape
        idx = _callback(1, kd, _uniform_cum(shape, n), shape)
        z = jnp.asarray(Z_ALPHABET[:n], dtype=loc.dtype)[idx]
        return jnp.broadcast_to(loc, shape) + jnp.broadcast_to(sd, shape) * z
    _S.unknown[kind] = _S.unknown.get(kind, 0) + 1
    return _orig_sample(self, sample_shape=sample_shape, seed=seed, name=name, **kwargs)


def _patched_categorical(key, logits, axis=-1, shape=None, **kw):
    if not _S.active:
        return _orig_categorical(key, logits, axis=axis, shape=shape, **kw)
    logits = jnp.asarray(logits)
    if axis not in (-1, logits.ndim - 1):
        logits = jnp.moveaxis(logits, axis, -1)
    p = jax.nn.softmax(logits, axis=-1)
    if shape is not None:
        p = jnp.broadcast_to(p, tuple(shape) + p.shape[-1:])
    idx = _callback(0, _key_data(key), _finite_cum(p), p.shape[:-1])
    return idx


def install():
    global _installed
    if _installed:
        return
    tfd.Distribution.sample = _patched_sample
    jax.random.categorical = _patched_categorical
    # modules that imported the name directly
    import importlib

    try:
        hm = importlib.import_module("genjax._src.generative_functions.distributions.custom.discrete_hmm")
        if hasattr(hm, "jax"):
            pass  # uses jax.random.categorical through the module attribute: already patched
    except Exception:
        pass
    _installed = True


@contextlib.contextmanager
def seam(n_cont: int = 3):
    """Activate the seam.  Functions jitted while the seam is active contain the callback."""
    install()
    prev = _S.active, _S.n_cont
    _S.active, _S.n_cont = True, n_cont
    try:
        yield
    finally:
        _S.active, _S.n_cont = prev


# --------------------------------------------------------------------------------------------
# Explorer


class Path:
    __slots__ = ("table", "prob", "result", "sites", "n_branch", "discrete")

    def __init__(self, table, prob, result, sites, n_branch, discrete):
        self.table = table
        self.prob = prob
        self.result = result
        self.sites = sites
        self.n_branch = n_branch
        self.discrete = discrete


class TreeCapped(Exception):
    pass


def run_with(fn: Callable[[], Any], table: dict):
    """Execute fn once under decision table `table` (site -> (lo,hi)).  Returns
    (result, final_table, branches, order, visits)."""
    st = _S
    st.table = dict(table)
    st.visits = {}
    st.branches = []
    st.order = []
    res = fn()
    res = jax.tree_util.tree_map(lambda x: np.asarray(x) if hasattr(x, "shape") else x, res)
    return res, dict(st.table), list(st.branches), list(st.order), dict(st.visits)


def explore(fn: Callable[[], Any], max_paths: int = 4096, base_table: dict | None = None) -> tuple[list[Path], dict]:
    """Enumerate every path of fn's probability tree.  fn must be deterministic given the decision
    table.  Raises TreeCapped if more than max_paths leaves exist."""
    paths: list[Path] = []
    stats = dict(executions=0, max_sites=0, branch_points=0)
    stack = [dict(base_table or {})]
    while stack:
        table = stack.pop()
        res, final, branches, order, visits = run_with(fn, table)
        stats["executions"] += 1
        stats["max_sites"] = max(stats["max_sites"], len(order))
        # probability = product of interval lengths over visited sites (relative to base)
        prob = 1.0
        for site in order:
            lo, hi = final.get(site, (0.0, 1.0))
            prob *= hi - lo
        discrete = all(kc == 0 for (_, _, kc) in branches) and not _S.unknown
        # a branch-free site of continuous kind still counts as continuous for the flag
        paths.append(Path(final, prob, res, order, len(branches), discrete))
        if len(paths) > max_paths:
            raise TreeCapped(f"more than {max_paths} paths")
        # children: for the i-th branch point, alternatives k>=1, earlier points at their default,
        # later points free.  Only branch points not already fixed by `table` are new here.
        fixed = dict(table)
        children = []
        for site, cells, _kc in branches:
            for alt in cells[1:]:
                child = dict(fixed)
                child[site] = alt
                children.append(child)
            fixed[site] = cells[0]
            stats["branch_points"] += 1
        stack.extend(reversed(children))
    return paths, stats


def total_prob(paths) -> float:
    return float(sum(p.prob for p in paths))


def check_replay(fn: Callable[[], Any], table: dict | None = None) -> bool:
    """Replay discipline: the same table twice must give bit-identical observables."""
    r1 = run_with(fn, table or {})
    r2 = run_with(fn, table or {})
    l1 = jax.tree_util.tree_leaves(r1[0])
    l2 = jax.tree_util.tree_leaves(r2[0])
    if len(l1) != len(l2):
        return False
    for a, b in zip(l1, l2):
        if not np.array_equal(np.asarray(a), np.asarray(b), equal_nan=True):
            return False
    return r1[3] == r2[3] or set(r1[3]) == set(r2[3])
