"""E5 - a small typed grammar of JAX functions for the jaxpr interpreters (C09, C31, C36).

A *term* is a nested tuple:

    ("arg", name)            an argument of the function (pool: x,y:F  v,w:V  i:I  b:B)
    ("lit", pyvalue)         a Python literal (becomes a jaxpr Literal)
    ("const", name)          a closed-over constant (jax Array -> constvar; numpy scalar -> typed Literal)
    (op, child, ...)         an operator of the OPS table

Types: F float32 scalar, V float32[3], I int32 scalar, B bool scalar.

A *function* (FnSpec) is an output specification over terms

    ("one", t) | ("tuple", t1, .., tk) | ("dict", (("k1", t1), ..))

plus optional unused arguments.  Outputs may be atoms directly, i.e. the jaxpr's outvars are invars,
literals or constvars - the corner the interpreters handle on a separate path.  Each function has at most
three arguments, and each argument a 2-value alphabet (rotated by VERIF_SEED).

Everything is evaluated eagerly: the sub-functions of control-flow primitives, the jitted function and
the custom_jvp function are module-level objects, so that jax's tracing and primitive-compilation caches
are hit after the first use in a process (no per-function jit).

The enumeration is deterministic and bounded:

    depth 0   atoms as outputs
    depth 1   every operator with its base atoms (distinct arguments) and every single-position replacement
              by a literal / constant, and the "same argument twice" variant
    depth 2   every (operator, position, child operator) pair               [quick: a covering rotation]
    depth 3   chains op1(op2(op3)) in a covering rotation                   [thorough only]
    multi     tuple / dict outputs mixing computed values, inputs, literals, constants, duplicates
"""

from __future__ import annotations

import dataclasses
import functools
from typing import Any, Callable

# ----------------------------------------------------------------------------------------------
# argument pool, literals, constants

ARG_TYPES = {"x": "F", "y": "F", "v": "V", "w": "V", "i": "I", "b": "B"}
ARG_ORDER = ["x", "y", "v", "w", "i", "b"]

# three candidate values per argument; the seed selects which two are used
_ALPHA3 = {
    "x": (0.5, -1.5, 3.0),
    "y": (2.0, 0.25, -0.5),
    "v": ((1.0, -2.0, 3.0), (0.5, 0.5, -1.0), (-3.0, 4.0, 0.0)),
    "w": ((0.0, 1.0, -1.0), (2.0, -3.0, 0.5), (1.0, 1.0, 1.0)),
    "i": (0, 2, 1),
    "b": (True, False, True),
}

LITS = {"F": [2.0], "I": [1], "B": [True], "V": []}
CONSTS = {"F": ["cF", "nF"], "V": ["cV"], "I": ["cI"], "B": []}


@functools.lru_cache(maxsize=None)
def _consts():
    import jax.numpy as jnp
    import numpy as np

    return {
        "cF": jnp.float32(0.75),  # jax scalar -> constvar
        "nF": np.float32(1.25),  # numpy scalar -> typed (non-weak) Literal
        "cV": jnp.array([0.5, -1.0, 2.0], dtype=jnp.float32),  # constvar
        "cI": jnp.int32(2),
    }


def const_value(name):
    return _consts()[name]


def alphabet(name: str, seed: int = 0):
    """The two values of argument `name` (as jax arrays of the right dtype)."""
    import jax.numpy as jnp

    vals = _ALPHA3[name]
    if name == "b":
        pair = (vals[0], vals[1]) if seed % 2 == 0 else (vals[1], vals[0])
    else:
        k = seed % 3
        pair = (vals[k], vals[(k + 1) % 3])
    dt = {"F": jnp.float32, "V": jnp.float32, "I": jnp.int32, "B": jnp.bool_}[ARG_TYPES[name]]
    return tuple(jnp.asarray(p, dtype=dt) for p in pair)


# ----------------------------------------------------------------------------------------------
# operator implementations (module level: stable identities => jax caches hit)


@functools.lru_cache(maxsize=None)
def _impl():
    import jax
    import jax.numpy as jnp
    from jax import lax

    cV = _consts()["cV"]

    def _cond_t(a, b):
        return a * 2.0 + b

    def _cond_f(a, b):
        return a - b

    def _condv_t(a, b):
        return a + b

    def _condv_f(a, b):
        return a * cV  # closes over a constant inside a branch

    _sw = [lambda a: a + 1.0, lambda a: a * a, lambda a: -a]

    def _scan_body(c, e):
        c2 = c * 0.5 + e
        return c2, c2 * e

    def _fori_body(k, a):
        return a * 0.5 + 1.0

    def _while_cond(s):
        return jnp.logical_and(s[1] < 4, jnp.abs(s[0]) < 50.0)

    def _while_body(s):
        return (s[0] * 1.5 + 1.0, s[1] + 1)

    @jax.jit
    def _jitted(a, b):
        return a * b + 1.0

    @jax.jit
    def _jitted_pass(a, b):  # a jitted function one of whose outputs is its input, another a literal
        return a, b * 2.0, 3.0

    @jax.custom_jvp
    def _cjvp(a):
        return jnp.sin(a) * 2.0

    @_cjvp.defjvp
    def _cjvp_jvp(p, t):
        return _cjvp(p[0]), t[0] * 2.0 * jnp.cos(p[0])

    @jax.custom_vjp
    def _cvjp(a):
        return a * a + 1.0

    def _cvjp_fwd(a):
        return _cvjp(a), a

    def _cvjp_bwd(res, g):
        return (2.0 * res * g,)

    _cvjp.defvjp(_cvjp_fwd, _cvjp_bwd)

    def condF(p, a, b):
        return lax.cond(p, _cond_t, _cond_f, a, b)

    def condV(p, a, b):
        return lax.cond(p, _condv_t, _condv_f, a, b)

    def switchF(i, a):
        return lax.switch(i, _sw, a)

    def scanc(v, a):
        return lax.scan(_scan_body, a, v)[0]

    def scany(v, a):
        return lax.scan(_scan_body, a, v)[1]

    def scanb(v, a):  # uses both scan results
        c, ys = lax.scan(_scan_body, a, v)
        return ys + c

    def foriS(a):
        return lax.fori_loop(0, 3, _fori_body, a)

    def foriD(i, a):
        return lax.fori_loop(0, i, _fori_body, a)

    def whileF(a):
        return lax.while_loop(_while_cond, _while_body, (a, 0))[0]

    def whileI(a):
        return lax.while_loop(_while_cond, _while_body, (a, 0))[1]

    def jitP(a, b):
        p, q, r = _jitted_pass(a, b)
        return p + q + r

    def sortK(a, b):
        return lax.sort((a, b), num_keys=1)[0]

    def sortW(a, b):  # first result dropped (DropVar)
        return lax.sort((a, b), num_keys=1)[1]

    def sortB(a, b):
        k, w = lax.sort((a, b), num_keys=1)
        return k * w

    def topv(v):  # indices dropped
        return lax.top_k(v, 2)[0][0]

    def topi(v):  # values dropped
        return lax.top_k(v, 2)[1][0]

    def tops(v):
        vals, idx = lax.top_k(v, 2)
        return vals[1] + v[idx[0]]

    return dict(
        add=lambda a, b: a + b,
        mul=lambda a, b: a * b,
        neg=lambda a: -a,
        sin=jnp.sin,
        tanh=jnp.tanh,
        sum=jnp.sum,
        dot=jnp.dot,
        idx=lambda v, i: v[i],
        i2f=lambda i: i.astype(jnp.float32) if hasattr(i, "astype") else jnp.float32(i),
        whereF=jnp.where,
        selF=lambda p, a, b: lax.select(p, a, b),
        condF=condF,
        switchF=switchF,
        scanc=scanc,
        foriS=foriS,
        foriD=foriD,
        whileF=whileF,
        jitF=_jitted,
        jitP=jitP,
        cjvp=_cjvp,
        cvjp=_cvjp,
        topv=topv,
        tops=tops,
        vadd=lambda a, b: a + b,
        vscale=lambda v, a: v * a,
        whereV=jnp.where,
        condV=condV,
        scany=scany,
        scanb=scanb,
        sortK=sortK,
        sortW=sortW,
        sortB=sortB,
        cumsum=jnp.cumsum,
        upd=lambda v, i, a: v.at[i].set(a),
        iadd=lambda a, b: a + b,
        argmax=lambda v: jnp.argmax(v).astype(jnp.int32),
        topi=topi,
        whileI=whileI,
        whereI=jnp.where,
        clipI=lambda i: jnp.clip(i, 0, 1),
        gt=lambda a, b: a > b,
        ilt=lambda a, b: a < b,
        bnot=jnp.logical_not,
        band=jnp.logical_and,
        anyV=lambda v: jnp.any(v > 0.0),
    )


# name: (input types, output type, features)
OPS: dict[str, tuple[tuple[str, ...], str, tuple[str, ...]]] = {
    # F
    "add": (("F", "F"), "F", ("arith",)),
    "mul": (("F", "F"), "F", ("arith",)),
    "neg": (("F",), "F", ("unary",)),
    "sin": (("F",), "F", ("unary",)),
    "tanh": (("F",), "F", ("unary",)),
    "sum": (("V",), "F", ("reduce",)),
    "dot": (("V", "V"), "F", ("reduce",)),
    "idx": (("V", "I"), "F", ("dynamic_index",)),
    "i2f": (("I",), "F", ("convert",)),
    "whereF": (("B", "F", "F"), "F", ("where", "pjit")),
    "selF": (("B", "F", "F"), "F", ("select",)),
    "condF": (("B", "F", "F"), "F", ("cond",)),
    "switchF": (("I", "F"), "F", ("switch",)),
    "scanc": (("V", "F"), "F", ("scan", "multi_result", "dropvar")),
    "foriS": (("F",), "F", ("fori", "scan")),
    "foriD": (("I", "F"), "F", ("fori", "while")),
    "whileF": (("F",), "F", ("while", "multi_result", "dropvar")),
    "jitF": (("F", "F"), "F", ("pjit",)),
    "jitP": (("F", "F"), "F", ("pjit", "multi_result", "inner_passthrough")),
    "cjvp": (("F",), "F", ("custom_jvp", "subfuns")),
    "cvjp": (("F",), "F", ("custom_vjp", "subfuns")),
    "topv": (("V",), "F", ("top_k", "multi_result", "dropvar")),
    "tops": (("V",), "F", ("top_k", "multi_result", "dynamic_index")),
    # V
    "vadd": (("V", "V"), "V", ("arith",)),
    "vscale": (("V", "F"), "V", ("arith", "broadcast")),
    "whereV": (("B", "V", "V"), "V", ("where", "pjit")),
    "condV": (("B", "V", "V"), "V", ("cond", "inner_const")),
    "scany": (("V", "F"), "V", ("scan", "multi_result", "dropvar")),
    "scanb": (("V", "F"), "V", ("scan", "multi_result")),
    "sortK": (("V", "V"), "V", ("sort2", "multi_result", "dropvar")),
    "sortW": (("V", "V"), "V", ("sort2", "multi_result", "dropvar")),
    "sortB": (("V", "V"), "V", ("sort2", "multi_result")),
    "cumsum": (("V",), "V", ("cumsum", "pjit")),
    "upd": (("V", "I", "F"), "V", ("scatter", "dynamic_index")),
    # I
    "iadd": (("I", "I"), "I", ("arith",)),
    "argmax": (("V",), "I", ("reduce",)),
    "topi": (("V",), "I", ("top_k", "multi_result", "dropvar")),
    "whileI": (("F",), "I", ("while", "multi_result", "dropvar")),
    "whereI": (("B", "I", "I"), "I", ("where", "pjit")),
    "clipI": (("I",), "I", ("pjit",)),
    # B
    "gt": (("F", "F"), "B", ("compare",)),
    "ilt": (("I", "I"), "B", ("compare",)),
    "bnot": (("B",), "B", ("unary",)),
    "band": (("B", "B"), "B", ("arith",)),
    "anyV": (("V",), "B", ("reduce",)),
}
OP_ORDER = list(OPS)


# ----------------------------------------------------------------------------------------------
# terms


def term_type(t) -> str:
    k = t[0]
    if k == "arg":
        return ARG_TYPES[t[1]]
    if k == "lit":
        v = t[1]
        return "B" if isinstance(v, bool) else "I" if isinstance(v, int) else "F"
    if k == "const":
        return {"cF": "F", "nF": "F", "cV": "V", "cI": "I"}[t[1]]
    return OPS[k][1]


def term_args(t, acc=None) -> list[str]:
    acc = [] if acc is None else acc
    if t[0] == "arg":
        if t[1] not in acc:
            acc.append(t[1])
    elif t[0] not in ("lit", "const"):
        for c in t[1:]:
            term_args(c, acc)
    return acc


def term_depth(t) -> int:
    if t[0] in ("arg", "lit", "const"):
        return 0
    return 1 + max(term_depth(c) for c in t[1:])


def term_features(t, acc=None) -> set:
    acc = set() if acc is None else acc
    if t[0] == "lit":
        acc.add("literal")
    elif t[0] == "const":
        acc.add("const_" + ("literal" if t[1] == "nF" else "var"))
    elif t[0] != "arg":
        acc.update(OPS[t[0]][2])
        for c in t[1:]:
            if c[0] == "lit":
                acc.add("literal_operand")
            if c[0] == "const":
                acc.add("const_operand")
            term_features(c, acc)
    return acc


def term_str(t) -> str:
    k = t[0]
    if k == "arg":
        return t[1]
    if k == "lit":
        return repr(t[1])
    if k == "const":
        return t[1]
    return k + "(" + ",".join(term_str(c) for c in t[1:]) + ")"


def eval_term(t, env: dict):
    k = t[0]
    if k == "arg":
        return env[t[1]]
    if k == "lit":
        return t[1]
    if k == "const":
        return _consts()[t[1]]
    return _impl()[k](*[eval_term(c, env) for c in t[1:]])


# ----------------------------------------------------------------------------------------------
# functions


@dataclasses.dataclass(frozen=True)
class FnSpec:
    out: tuple  # ("one", t) | ("tuple", t..) | ("dict", ((k, t), ..))
    unused: tuple = ()  # names of extra, ignored arguments

    @property
    def terms(self) -> list:
        if self.out[0] == "one":
            return [self.out[1]]
        if self.out[0] == "tuple":
            return list(self.out[1:])
        return [t for _, t in self.out[1]]

    @property
    def args(self) -> list[str]:
        used: list[str] = []
        for t in self.terms:
            term_args(t, used)
        names = set(used) | set(self.unused)
        return [a for a in ARG_ORDER if a in names]

    @property
    def used_args(self) -> list[str]:
        used: list[str] = []
        for t in self.terms:
            term_args(t, used)
        return [a for a in ARG_ORDER if a in used]

    @property
    def depth(self) -> int:
        return max(term_depth(t) for t in self.terms)

    @property
    def features(self) -> set:
        f: set = set()
        for t in self.terms:
            term_features(t, f)
            if t[0] == "arg":
                f.add("out_is_input")
            if t[0] == "lit":
                f.add("out_is_literal")
            if t[0] == "const":
                f.add("out_is_const")
        if self.out[0] != "one":
            f.add("out_" + self.out[0])
            ts = self.terms
            if len({term_str(t) for t in ts}) < len(ts):
                f.add("out_duplicate")
        if self.unused:
            f.add("unused_input")
        return f

    @property
    def id(self) -> str:
        if self.out[0] == "one":
            s = term_str(self.out[1])
        elif self.out[0] == "tuple":
            s = "(" + ",".join(term_str(t) for t in self.out[1:]) + ")"
        else:
            s = "{" + ",".join(f"{k}:{term_str(t)}" for k, t in self.out[1]) + "}"
        if self.unused:
            s += "|unused:" + ",".join(self.unused)
        return "fn[" + ",".join(self.args) + "]" + s

    def build(self) -> Callable[..., Any]:
        names = self.args
        out = self.out

        def fn(*vals):
            env = dict(zip(names, vals))
            if out[0] == "one":
                return eval_term(out[1], env)
            if out[0] == "tuple":
                return tuple(eval_term(t, env) for t in out[1:])
            return {k: eval_term(t, env) for k, t in out[1]}

        fn.__name__ = "e5fn"
        return fn

    def alphabets(self, seed: int = 0) -> list[tuple]:
        return [alphabet(a, seed) for a in self.args]

    def describe(self) -> dict:
        return {"fn": self.id, "args": {a: ARG_TYPES[a] for a in self.args}, "features": sorted(self.features), "depth": self.depth}


# ----------------------------------------------------------------------------------------------
# enumeration

_ARGS_BY_TYPE = {"F": ["x", "y"], "V": ["v", "w"], "I": ["i"], "B": ["b"]}


def _nonarg_atoms(ty: str) -> list:
    return [("lit", v) for v in LITS[ty]] + [("const", c) for c in CONSTS[ty]]


def base_atoms(op: str, avoid: tuple = ()) -> list | None:
    """Distinct arguments per position (falling back to literal / constant when the pool is exhausted)."""
    used = list(avoid)
    out = []
    for ty in OPS[op][0]:
        pick = next((a for a in _ARGS_BY_TYPE[ty] if a not in used), None)
        if pick is None:
            alts = _nonarg_atoms(ty)
            if not alts:
                return None
            out.append(alts[0])
        else:
            used.append(pick)
            out.append(("arg", pick))
    return out


def _limit_args(t, max_args=3):
    """Replace arguments of the outermost operator by literals/constants until <= max_args are used."""
    if len(term_args(t)) <= max_args:
        return t
    op, kids = t[0], list(t[1:])
    for j in range(len(kids) - 1, -1, -1):
        if kids[j][0] == "arg":
            alts = _nonarg_atoms(ARG_TYPES[kids[j][1]])
            if alts:
                kids[j] = alts[j % len(alts)]
                cand = (op, *kids)
                if len(term_args(cand)) <= max_args:
                    return cand
    cand = (op, *kids)
    return cand if len(term_args(cand)) <= max_args else None


def depth1_terms(full: bool) -> list:
    out = []
    for n, op in enumerate(OP_ORDER):
        base = base_atoms(op)
        if base is None:
            continue
        out.append((op, *base))
        tys = OPS[op][0]
        for j, ty in enumerate(tys):
            alts = _nonarg_atoms(ty)
            if not full and alts:
                alts = [alts[(n + j) % len(alts)]]  # rotation: one replacement per position
            for a in alts:
                kids = list(base)
                kids[j] = a
                if all(k[0] != "arg" for k in kids):
                    continue  # no input at all: folded by Python/jax before the interpreter sees it
                out.append((op, *kids))
        # same argument in two positions
        for j in range(len(tys)):
            for k in range(j + 1, len(tys)):
                if tys[j] == tys[k] and base[j][0] == "arg":
                    kids = list(base)
                    kids[k] = base[j]
                    out.append((op, *kids))
                    break
            else:
                continue
            break
    return out


def _children_of_type(ty: str) -> list[str]:
    return [o for o in OP_ORDER if OPS[o][1] == ty]


def depth2_terms(full: bool) -> list:
    out = []
    rot = 0
    for op in OP_ORDER:
        tys = OPS[op][0]
        for j, ty in enumerate(tys):
            kids_ops = _children_of_type(ty)
            if not full:
                kids_ops = [kids_ops[rot % len(kids_ops)]]
                rot += 1
            for cop in kids_ops:
                cbase = base_atoms(cop)
                if cbase is None:
                    continue
                child = (cop, *cbase)
                base = base_atoms(op)
                if base is None:
                    continue
                kids = list(base)
                kids[j] = child
                t = _limit_args((op, *kids))
                if t is not None:
                    out.append(t)
                if full:
                    # second variant: the sibling positions are literals / constants where possible
                    kids2 = list(base)
                    for k, ty2 in enumerate(tys):
                        if k != j:
                            alts = _nonarg_atoms(ty2)
                            if alts:
                                kids2[k] = alts[(j + k) % len(alts)]
                    kids2[j] = child
                    t2 = _limit_args((op, *kids2))
                    if t2 is not None and t2 != t:
                        out.append(t2)
    return out


def depth3_terms(stride: int = 1) -> list:
    """Chains op1(.., op2(.., op3(base), ..), ..): every (op1, pos, op2) pair with a rotating op3."""
    out = []
    rot = 0
    n = 0
    for op in OP_ORDER:
        tys = OPS[op][0]
        for j, ty in enumerate(tys):
            for cop in _children_of_type(ty):
                ctys = OPS[cop][0]
                for cj, cty in enumerate(ctys):
                    n += 1
                    if n % stride:
                        continue
                    gops = _children_of_type(cty)
                    gop = gops[rot % len(gops)]
                    rot += 1
                    gbase = base_atoms(gop)
                    cbase = base_atoms(cop)
                    base = base_atoms(op)
                    if gbase is None or cbase is None or base is None:
                        continue
                    ckids = list(cbase)
                    ckids[cj] = (gop, *gbase)
                    child = _limit_args((cop, *ckids))
                    if child is None:
                        continue
                    kids = list(base)
                    kids[j] = child
                    t = _limit_args((op, *kids))
                    if t is not None:
                        out.append(t)
    return out


def multi_output_specs(pool: list, full: bool) -> list[FnSpec]:
    """Tuple / dict outputs: computed values next to direct inputs, literals, constants and duplicates."""
    X, V, I, B = ("arg", "x"), ("arg", "v"), ("arg", "i"), ("arg", "b")
    L, LI, LB = ("lit", 2.0), ("lit", 1), ("lit", True)
    CF, NF, CV = ("const", "cF"), ("const", "nF"), ("const", "cV")
    specs = [
        FnSpec(("tuple", X, L, CV)),  # nothing computed at all
        FnSpec(("tuple", X, X)),  # same input twice
        FnSpec(("tuple", L, LI, LB), unused=("x",)),  # only literals, input ignored
        FnSpec(("dict", (("a", CF), ("b", NF), ("c", CV))), unused=("v",)),  # only constants
        FnSpec(("dict", (("a", X), ("b", L), ("c", CV), ("d", ("add", X, CF)), ("e", V)))),
        FnSpec(("tuple", ("mul", X, ("arg", "y")), ("arg", "y"), L)),
        FnSpec(("tuple", ("sin", X), ("sin", X))),  # duplicate computed output
        FnSpec(("tuple", ("topv", V), ("topi", V))),  # both results of a multi-result primitive
        FnSpec(("tuple", ("sortK", V, ("arg", "w")), ("sortW", V, ("arg", "w")), ("arg", "w"))),
        FnSpec(("tuple", ("scanc", V, X), ("scany", V, X), I), unused=()),
        FnSpec(("dict", (("p", ("condF", B, X, L)), ("q", B), ("r", LB)))),
        FnSpec(("tuple", ("idx", V, I), ("idx", CV, I), ("idx", V, LI))),
        FnSpec(("tuple", ("neg", X), ("sum", V)), unused=("i",)),  # outputs depending on disjoint inputs
        FnSpec(("tuple", ("add", X, L), ("vscale", V, CF), ("iadd", I, LI))),  # each output from one input
    ]
    picks = pool if full else pool[:: max(1, len(pool) // 10)][:10]
    for n, t in enumerate(picks):
        ty = term_type(t)
        args = term_args(t)
        direct = ("arg", args[0]) if args else X
        lit = (_nonarg_atoms(ty) or [L])[0]
        shape = n % 3
        if len(set(args) | {direct[1]}) > 3:
            continue
        if shape == 0:
            specs.append(FnSpec(("tuple", t, direct)))
        elif shape == 1:
            specs.append(FnSpec(("tuple", lit, t)))
        else:
            specs.append(FnSpec(("dict", (("u", direct), ("v", t), ("w", CV)))))
    return specs


def _with_unused(spec: FnSpec, n: int) -> FnSpec | None:
    if len(spec.args) >= 3:
        return None
    for a in ARG_ORDER[n % len(ARG_ORDER) :] + ARG_ORDER:
        if a not in spec.args:
            return FnSpec(spec.out, unused=(a,))
    return None


def atoms_specs() -> list[FnSpec]:
    specs = []
    for a in ["x", "v", "i", "b"]:
        specs.append(FnSpec(("one", ("arg", a))))
    specs.append(FnSpec(("one", ("arg", "x")), unused=("v", "i")))
    for ty in "FIB":
        for v in LITS[ty]:
            specs.append(FnSpec(("one", ("lit", v)), unused=("x",)))
    for ty in "FVI":
        for c in CONSTS[ty]:
            specs.append(FnSpec(("one", ("const", c)), unused=("x",)))
    specs.append(FnSpec(("one", ("lit", 2.0)), unused=("x", "v")))
    return specs


@functools.lru_cache(maxsize=None)
def functions(tier: str) -> tuple[FnSpec, ...]:
    """The deterministic, structurally de-duplicated list of functions of a tier."""
    full = tier == "thorough"
    specs: list[FnSpec] = list(atoms_specs())
    d1 = depth1_terms(full=full)
    d2 = depth2_terms(full=full)
    d3 = depth3_terms(stride=1) if full else []
    terms = d1 + d2 + d3
    for t in terms:
        if len(term_args(t)) <= 3:
            specs.append(FnSpec(("one", t)))
    specs.extend(multi_output_specs(d1 + d2, full=full))
    # outputs ignoring some inputs: add an unused argument to a rotating subset
    step = 7 if full else 9
    for n, t in enumerate(terms[::step]):
        s = _with_unused(FnSpec(("one", t)), n)
        if s is not None:
            specs.append(s)
    seen = set()
    out = []
    for s in specs:
        if len(s.args) > 3 or len(s.args) == 0:
            continue
        if s.id in seen:
            continue
        seen.add(s.id)
        out.append(s)
    out.extend(pytree_functions())
    return tuple(out)



# ----------------------------------------------------------------------------------------------
# hand-written functions with pytree-valued arguments (same interface as FnSpec)


@dataclasses.dataclass(frozen=True)
class PyFn:
    name: str
    argnames: tuple
    feats: tuple

    @property
    def id(self) -> str:
        return "py[" + ",".join(self.argnames) + "]" + self.name

    @property
    def args(self):
        return list(self.argnames)

    used_args = args

    @property
    def depth(self) -> int:
        return 1

    @property
    def features(self) -> set:
        return set(self.feats) | {"pytree_arg"}

    def build(self):
        return _pyfns()[self.name][0]

    def alphabets(self, seed: int = 0):
        return [_pytree_alphabet(a, seed) for a in self.argnames]

    def describe(self) -> dict:
        return {"fn": self.id, "features": sorted(self.features), "depth": 1}


def _pytree_alphabet(name, seed):
    if name == "p":  # dict argument with a float and an int leaf
        xa, ia = alphabet("x", seed), alphabet("i", seed)
        return ({"a": xa[0], "k": ia[0]}, {"a": xa[1], "k": ia[1]})
    if name == "q":  # tuple argument (float, vector)
        ya, va = alphabet("y", seed), alphabet("v", seed)
        return ((ya[0], va[0]), (ya[1], va[1]))
    # Python-scalar (weakly typed) inputs and narrow array dtypes: ordinary evaluation promotes
    # `uint8 array * python int` to uint8; an interpreter that stages the scalar strongly gives int32
    if name == "g":
        return (2, 3) if seed % 2 == 0 else (3, 2)
    if name == "h":
        return (0.5, 1.5) if seed % 2 == 0 else (1.5, 0.5)
    if name == "u8":
        import jax.numpy as jnp

        return (jnp.asarray([10, 100, 200, 250], dtype=jnp.uint8), jnp.asarray([1, 2, 3, 4], dtype=jnp.uint8))
    if name == "f16":
        import jax.numpy as jnp

        return (jnp.asarray([0.5, 1.25, -2.0], dtype=jnp.float16), jnp.asarray([1.0, 3.0, 0.25], dtype=jnp.float16))
    if name == "i8":
        import jax.numpy as jnp

        return (jnp.asarray(100, dtype=jnp.int8), jnp.asarray(-7, dtype=jnp.int8))
    return alphabet(name, seed)


@functools.lru_cache(maxsize=None)
def _pyfns():
    import jax.numpy as jnp
    from jax import lax

    I = _impl()
    cV = _consts()["cV"]

    def dict_arg(p, v):
        return (p["a"] * 2.0, v[p["k"]], p)

    def dict_passthrough(p):
        return {"same": p, "lit": 1.0, "k2": p["k"] + 1}

    def tuple_arg(q, b):
        y, v = q
        return I["condF"](b, y, 2.0), (v, cV), q[0]

    def tuple_scan(q):
        y, v = q
        c, ys = lax.scan(lambda c, e: (c + e, c * e), y, v)
        return {"c": c, "ys": ys, "in": v}

    def nested_out(p, x):
        return [(x, {"z": p["a"] + x}), 3, (cV,)]

    def weak_int_gain(u8, g):
        return u8 * g, g

    def weak_float_shift(f16, h):
        return f16 + h, (f16 * h).sum()

    def weak_scan_carry(i8, g):
        c, ys = lax.scan(lambda c, _: (c + g, c * g), i8, None, length=3)
        return c, ys

    def weak_only(g, h):
        return jnp.multiply(g, h) + 1, jnp.where(h > 1.0, g, 7)

    return {
        "weak_int_gain": (weak_int_gain,),
        "weak_float_shift": (weak_float_shift,),
        "weak_scan_carry": (weak_scan_carry,),
        "weak_only": (weak_only,),
        "dict_arg": (dict_arg,),
        "dict_passthrough": (dict_passthrough,),
        "tuple_arg": (tuple_arg,),
        "tuple_scan": (tuple_scan,),
        "nested_out": (nested_out,),
    }


def pytree_functions() -> list[PyFn]:
    return [
        PyFn("dict_arg", ("p", "v"), ("dynamic_index", "out_is_input", "out_tuple")),
        PyFn("dict_passthrough", ("p",), ("out_is_input", "out_is_literal", "out_dict")),
        PyFn("tuple_arg", ("q", "b"), ("cond", "out_is_input", "out_is_const", "literal_operand", "out_tuple")),
        PyFn("tuple_scan", ("q",), ("scan", "multi_result", "out_is_input", "out_dict")),
        PyFn("nested_out", ("p", "x"), ("out_is_input", "out_is_literal", "out_is_const", "out_tuple")),
        PyFn("weak_int_gain", ("u8", "g"), ("weak_scalar_input", "narrow_dtype", "out_is_input", "out_tuple")),
        PyFn("weak_float_shift", ("f16", "h"), ("weak_scalar_input", "narrow_dtype", "out_tuple")),
        PyFn("weak_scan_carry", ("i8", "g"), ("weak_scalar_input", "narrow_dtype", "scan", "multi_result", "out_tuple")),
        PyFn("weak_only", ("g", "h"), ("weak_scalar_input", "out_tuple")),
    ]


def feature_census(specs) -> dict:
    c: dict[str, int] = {}
    for s in specs:
        for f in s.features:
            c[f] = c.get(f, 0) + 1
    return dict(sorted(c.items()))


def all_inputs(spec: FnSpec, seed: int = 0):
    """All 2^n input tuples (index tuple, values tuple)."""
    import itertools

    alphas = spec.alphabets(seed)
    for bits in itertools.product((0, 1), repeat=len(alphas)):
        yield bits, tuple(a[b] for a, b in zip(alphas, bits))


def leaf_inputs(spec, seed: int = 0):
    """Per-leaf view of the inputs: (treedef of the argument tuple, [(leaf value 0, leaf value 1), ...])."""
    import jax.tree_util as jtu

    alphas = spec.alphabets(seed)
    l0, td = jtu.tree_flatten(tuple(a[0] for a in alphas))
    l1, td1 = jtu.tree_flatten(tuple(a[1] for a in alphas))
    assert td == td1
    return td, list(zip(l0, l1))


if __name__ == "__main__":
    for tier in ("quick", "thorough"):
        fs = functions(tier)
        print(tier, len(fs), "depths", {d: sum(1 for s in fs if s.depth == d) for d in range(4)})
        print(feature_census(fs))
