"""Glue between real genjax objects and the reference model: reading choice maps through the
public API, normalising return values, building constraints/selections, cached jitted operations."""

from __future__ import annotations

import os
import warnings

os.environ.setdefault("JAX_PLATFORMS", "cpu")
warnings.filterwarnings("ignore", category=DeprecationWarning)

import jax
import jax.numpy as jnp
import numpy as np

import genjax
from genjax import ChoiceMap, Diff, Selection
from genjax._src.core.generative.functional_types import Mask

from . import seam
from .common import close
from .grammar import MaskVal, Node, ref_enumerate, ref_run, RefCtx, Missing

ChoiceMapNoValueAtAddress = genjax._src.core.generative.choice_map.ChoiceMapNoValueAtAddress


def base_key(seed: int):
    return jax.random.key(1000 + int(seed))


# --------------------------------------------------------------------------------------------
# choice maps


def lookup(chm, path):
    """Public-API lookup.  Returns None (statically absent) or (value, flag)."""
    try:
        sub = chm.get_submap(*path) if path else chm
        v = sub.get_value()
    except (IndexError, AssertionError, ValueError, TypeError) as e:
        return None
    if v is None:
        return None
    if isinstance(v, Mask):
        return (v.value, v.primal_flag())
    return (v, True)


def probes_for(universe):
    """Foreign addresses that must be absent: proper prefixes of traced paths (unless themselves
    traced), a sibling 'zz' at every level."""
    uni = set(universe)
    pr = set()
    for p in uni:
        for i in range(len(p)):
            q = p[:i]
            # a prefix followed by an index component is a vectorized container (it legitimately
            # holds the stacked value); only static-next prefixes must be absent
            if q not in uni and isinstance(p[i], str):
                pr.add(q)
            pr.add(p[:i] + ("zz",))
        pr.add(p + ("zz",))
    pr.discard(())
    return sorted(pr - uni, key=repr)


def read_choices(chm, paths):
    """list aligned with paths: None or (value, flag)"""
    return [lookup(chm, p) for p in paths]


def choices_to_asg(paths, flat):
    """numpy conversion: dict path -> python value for entries whose flag is true"""
    asg = {}
    for p, r in zip(paths, flat):
        if r is None:
            continue
        v, f = r
        f = np.asarray(f)
        if f.shape != ():
            raise ValueError(f"non-scalar flag at {p}")
        if bool(f):
            asg[p] = pyval(v)
    return asg


def pyval(v):
    a = np.asarray(v)
    if a.shape == ():
        if a.dtype == np.bool_:
            return bool(a)
        if np.issubdtype(a.dtype, np.integer):
            return int(a)
        return float(a)
    return a


def make_chm(asg: dict):
    """Constraint choice map from path->value with scalar int index components."""
    chm = ChoiceMap.empty()
    for p, v in asg.items():
        if isinstance(v, (bool, np.bool_)):
            val = jnp.asarray(bool(v))
        elif isinstance(v, (int, np.integer)):
            val = jnp.asarray(int(v), dtype=jnp.int32)
        elif isinstance(v, float):
            val = jnp.asarray(v, dtype=jnp.float32)
        else:
            val = v
        chm = chm | ChoiceMap.entry(val, *p)
    return chm


def static_part(path):
    return tuple(c for c in path if isinstance(c, str))


# --------------------------------------------------------------------------------------------
# return values


def norm_ret(v):
    """real retval -> nested python structure of numpy arrays / MaskVal"""
    if isinstance(v, Mask):
        f = v.flag
        if isinstance(f, Diff):
            f = f.primal
        return MaskVal(np.asarray(f), norm_ret(v.value))
    if isinstance(v, (tuple, list)):
        return tuple(norm_ret(x) for x in v)
    if v is None:
        return None
    if isinstance(v, dict):
        return {k: norm_ret(x) for k, x in v.items()}
    return np.asarray(v)


def cmp_ret(real, ref, where=None) -> bool:
    """Compare normalised real retval with reference retval.  `where`: boolean mask (broadcast over
    leading axis) restricting the comparison (used under vector masks)."""
    if isinstance(ref, MaskVal):
        if not isinstance(real, MaskVal):
            return False
        rf, ff = np.asarray(real.flag), np.asarray(ref.flag)
        if rf.shape != ff.shape:
            try:
                rf, ff = np.broadcast_arrays(rf, ff)
            except ValueError:
                return False
        if where is not None:
            w = np.asarray(where)
            if not np.array_equal(rf[w] if rf.shape else rf, ff[w] if ff.shape else ff):
                return False
            sub = ff & w if ff.shape else (w if bool(ff) else np.zeros_like(w))
        else:
            if not np.array_equal(rf, ff):
                return False
            sub = ff
        if ref.value is None or not np.any(sub):
            return True
        return cmp_ret(real.value, ref.value, where=sub if np.asarray(sub).shape else None)
    if isinstance(ref, tuple):
        if not isinstance(real, tuple) or len(real) != len(ref):
            return False
        return all(cmp_ret(a, b, where) for a, b in zip(real, ref))
    if ref is None:
        return real is None
    if real is None or isinstance(real, (tuple, MaskVal)):
        return False
    a, b = np.asarray(real), np.asarray(ref)
    if a.shape != b.shape:
        if a.size == 0 and b.size == 0 and a.shape[:1] == b.shape[:1]:
            return True
        return False
    if where is not None:
        w = np.asarray(where)
        a, b = a[w], b[w]
    return close(a.astype(np.float64), b.astype(np.float64))


# --------------------------------------------------------------------------------------------
# arguments


def to_jax_args(args):
    def conv(a):
        if a is None:
            return None
        if isinstance(a, tuple):
            return tuple(conv(x) for x in a)
        if isinstance(a, (bool, np.bool_)):
            return jnp.asarray(bool(a))
        if isinstance(a, (int, np.integer)):
            return jnp.asarray(int(a), dtype=jnp.int32)
        if isinstance(a, float):
            return jnp.asarray(a, dtype=jnp.float32)
        return jnp.asarray(a)

    return tuple(conv(a) for a in args)


def args_key(args):
    def k(a):
        if a is None:
            return None
        if isinstance(a, tuple):
            return tuple(k(x) for x in a)
        return np.asarray(a).tolist()

    return repr(k(args))


# --------------------------------------------------------------------------------------------
# program wrapper with cached jitted operations


class Prog:
    def __init__(self, node: Node, n_cont: int = 2):
        self.node = node
        self.gf = node.gf()
        self.n_cont = n_cont
        self._jit = {}
        self._universe = {}

    # ---- address universe from the reference --------------------------------------------
    def enumerate_ref(self, args):
        return ref_enumerate(self.node, args, n_cont=self.n_cont)

    def universe(self, args_list):
        key = tuple(args_key(a) for a in args_list)
        if key not in self._universe:
            uni = set()
            for a in args_list:
                for asg, ret, R in self.enumerate_ref(a):
                    uni.update(R.visited())
            self._universe[key] = sorted(uni, key=repr)
        return self._universe[key]

    # ---- jitted ops -----------------------------------------------------------------------
    def jitted(self, name, fn):
        if name not in self._jit:
            with seam.seam(self.n_cont):
                self._jit[name] = jax.jit(fn)
        return self._jit[name]

    def obs(self, tr, paths):
        return dict(
            score=tr.get_score(),
            retval=tr.get_retval(),
            choices=read_choices(tr.get_choices(), paths),
        )


def obs_np(o):
    """device -> numpy, normalise retval"""
    out = {}
    for k, v in o.items():
        if k == "retval":
            out[k] = norm_ret(v)
        elif k == "choices":
            out[k] = v
        else:
            out[k] = jax.tree_util.tree_map(np.asarray, v)
    return out
