"""E4 - explicit-state search over GFI edit histories on real traces.

State       = a real genjax Trace (numpy leaves) + the finite-map view (args, asg) read through the
              public API.  Canonical key = hash of all trace leaves (over-fine on purpose).
Transition  = one call into the real library (`request.edit(key, trace, argdiffs)`), every random
              outcome of which is enumerated by the seam (E1).  Each transition is compared
              field-by-field with the reference successor by the *oracles* a property module passes in.
Search      = breadth first, simplest alphabet first, to a depth bound and a per-program state cap.
"""

from __future__ import annotations

import hashlib
import itertools
from dataclasses import dataclass, field
from typing import Any, Callable

import jax
import jax.numpy as jnp
import numpy as np

import genjax
from genjax import ChoiceMap, Diff, Selection
from genjax import Update, Regenerate, IndexRequest, EmptyRequest, DiffAnnotate, StaticRequest
from genjax._src.core.compiler.interpreters.incremental import NoChange, UnknownChange

from . import seam
from .common import HarnessError, close
from .grammar import Missing, Node, ref_run, support, cont_alphabet
from .harness import (
    Prog,
    args_key,
    choices_to_asg,
    cmp_ret,
    make_chm,
    norm_ret,
    probes_for,
    read_choices,
    static_part,
    to_jax_args,
)
from .gfi import asg_key


def trace_hash(tr) -> str:
    h = hashlib.blake2b(digest_size=12)
    for leaf in jax.tree_util.tree_leaves(tr):
        a = np.asarray(leaf)
        h.update(str(a.dtype).encode())
        h.update(str(a.shape).encode())
        h.update(a.tobytes())
    return h.hexdigest()


@dataclass
class State:
    trace: Any
    args: tuple
    asg: dict
    score: float
    retval: Any
    depth: int
    history: list = field(default_factory=list)
    ref_score: float | None = None

    def key(self):
        return trace_hash(self.trace)


@dataclass
class Spec:
    """A transition label."""

    kind: str  # update | regenerate | index | static | empty | annotate | bwd
    constraint: dict | None = None  # path -> value
    new_args: tuple | None = None  # None = unchanged values
    tags: str = "nochange"  # nochange | unknown (tagging of (unchanged or changed) arguments)
    selection: Any = None  # description tuple for regenerate
    idx: int | None = None
    inner: "Spec | None" = None
    concrete_idx: bool = False
    label: str = ""

    def describe(self):
        d = dict(kind=self.kind)
        if self.constraint is not None:
            d["constraint"] = {repr(k): v for k, v in self.constraint.items()}
        if self.new_args is not None:
            d["new_args"] = args_key(self.new_args)
        d["tags"] = self.tags
        if self.selection is not None:
            d["selection"] = repr(self.selection)
        if self.idx is not None:
            d["idx"] = self.idx
        if self.inner is not None:
            d["inner"] = self.inner.describe()
        return d


# selections are described as tuples so they can be rebuilt and evaluated by the reference:
#   ("none",) ("all",) ("at", addr_tuple) ("not", sel) ("or", s1, s2) ("and", s1, s2) ("wild", addr)


def build_selection(desc):
    k = desc[0]
    if k == "none":
        return Selection.none()
    if k == "all":
        return Selection.all()
    if k == "at":
        return Selection.at[desc[1]]
    if k == "not":
        return ~build_selection(desc[1])
    if k == "or":
        return build_selection(desc[1]) | build_selection(desc[2])
    if k == "and":
        return build_selection(desc[1]) & build_selection(desc[2])
    if k == "wild":  # at[..., a]
        return Selection.at[(Ellipsis,) + tuple(desc[1])]
    raise ValueError(desc)


def ref_selected(desc, spath) -> bool:
    """reference membership of a *static* address (tuple of str) - prefix semantics: selecting an
    address selects everything below it."""
    k = desc[0]
    if k == "none":
        return False
    if k == "all":
        return True
    if k == "at":
        a = tuple(desc[1])
        return spath[: len(a)] == a
    if k == "not":
        return not ref_selected(desc[1], spath)
    if k == "or":
        return ref_selected(desc[1], spath) or ref_selected(desc[2], spath)
    if k == "and":
        return ref_selected(desc[1], spath) and ref_selected(desc[2], spath)
    if k == "wild":
        a = tuple(desc[1])
        return len(spath) >= 1 + len(a) and spath[1 : 1 + len(a)] == a
    raise ValueError(desc)


def ref_selected_path(desc, path) -> bool:
    """membership of a full address path; ("idx", i, inner) restricts an inner selection to index i of
    a top-level vector combinator"""
    if desc[0] == "idx":
        return len(path) > 0 and path[0] == desc[1] and ref_selected(desc[2], static_part(path[1:]))
    return ref_selected(desc, static_part(path))


def index_specs(node: Node, state: State, tier: str, n_cont=2):
    """IndexRequest(i, Update / Regenerate) for every index of a top-level vector combinator"""
    ret, R = ref_run(node, state.args, state.asg)
    idxs = sorted({t[0][0] for t in R.terms if t[0] and isinstance(t[0][0], int)})
    specs = []
    inner = node.children()[0] if node.children() else None
    for i in idxs:
        terms_i = [t for t in R.terms if t[0][0] == i]
        for t in terms_i[: (2 if tier == "quick" else 4)]:
            for v in alt_values(t)[:1]:
                sp = Spec("index", idx=i, inner=Spec("update", constraint={t[0][1:]: v}), tags="nochange", label="index_update")
                sp.constraint = {t[0]: v}
                specs.append(sp)
        if inner is not None and inner.regen_ok:
            for sel in (("all",), ("none",)) + tuple(("at", static_part(t[0][1:])[:1]) for t in terms_i[:1] if static_part(t[0][1:])):
                sp = Spec("index", idx=i, inner=Spec("regenerate", selection=sel), tags="nochange", label="index_regenerate")
                sp.selection = ("idx", i, sel)
                specs.append(sp)
    return specs


def make_argdiffs(jargs, tags: str):
    if tags == "nochange":
        return Diff.no_change(jargs)
    return Diff.unknown_change(jargs)


class Space:
    def __init__(self, prog: Prog, key, args_list: list[tuple], n_cont: int = 2, static_args: bool = False):
        self.static_args = static_args
        self.prog = prog
        self.node = prog.node
        self.key = key
        self.args_list = args_list
        self.universe = prog.universe(args_list)
        self.probes = probes_for(self.universe)
        self.paths_all = list(self.universe) + list(self.probes)
        paths_all = self.paths_all
        gf = prog.gf

        def sim(key, args):
            tr = gf.simulate(key, args)
            return dict(
                trace=tr,
                score=tr.get_score(),
                retval=tr.get_retval(),
                choices=read_choices(tr.get_choices(), paths_all),
            )

        def gen(key, chm, args):
            tr, w = gf.importance(key, chm, args)
            return dict(
                trace=tr,
                weight=w,
                score=tr.get_score(),
                retval=tr.get_retval(),
                choices=read_choices(tr.get_choices(), paths_all),
            )

        def edit(key, tr, req, argdiffs):
            tr2, w, retdiff, bwd = req.edit(key, tr, argdiffs)
            out = dict(
                trace=tr2,
                weight=w,
                retdiff=retdiff,
                bwd=bwd,
                score=tr2.get_score(),
                retval=tr2.get_retval(),
                args=tr2.get_args(),
                choices=read_choices(tr2.get_choices(), paths_all),
            )
            if isinstance(bwd, Update):
                out["discard"] = read_choices(bwd.constraint, paths_all)
            return out

        def assess(chm, args):
            s, r = gf.assess(chm, args)
            return dict(score=s, retval=r)

        with seam.seam(prog.n_cont):
            if static_args:
                # arguments are closed over as python constants: one jitted function per argument tuple
                from .gfi import concrete_args

                cache = {}

                def _static(fn, pos):
                    def call(*a):
                        a = list(a)
                        args = a[pos]
                        k = (fn.__name__, args_key(args))
                        if k not in cache:
                            cargs = concrete_args(args)
                            with seam.seam(prog.n_cont):
                                cache[k] = jax.jit(lambda *rest: fn(*rest[:pos], cargs, *rest[pos:]))
                        return cache[k](*a[:pos], *a[pos + 1 :])

                    return call

                self._sim = _static(sim, 1)
                self._gen = _static(gen, 2)
                self._assess = _static(assess, 1)
                self._edit = jax.jit(edit)
            else:
                self._sim = jax.jit(sim)
                self._gen = jax.jit(gen)
                self._edit = jax.jit(edit)
                self._assess = jax.jit(assess)
        self.n_cont = prog.n_cont
        self._edit_raw = edit
        self._sim_raw, self._gen_raw, self._assess_raw = sim, gen, assess
        self._static_edit = {}

    # ------------------------------------------------------------------------------------
    def _mk_state(self, res, args, depth, history):
        asg = choices_to_asg(self.paths_all, res["choices"])
        return State(
            trace=res["trace"],
            args=args,
            asg=asg,
            score=float(np.asarray(res["score"])),
            retval=norm_ret(res["retval"]),
            depth=depth,
            history=history,
        )

    def initial_states(self, max_paths=512):
        out = []
        for args in self.args_list:
            jargs = args if self.static_args else to_jax_args(args)
            fn = lambda: self._sim(self.key, jargs)
            with seam.seam(self.n_cont):
                paths, stats = seam.explore(fn, max_paths=max_paths)
            for p in paths:
                out.append((self._mk_state(p.result, args, 0, [dict(op="simulate", args=args_key(args))]), p))
        return out

    def generate(self, args, constraint: dict, max_paths=512, chm=None):
        jargs = args if self.static_args else to_jax_args(args)
        chm = make_chm(constraint) if chm is None else chm
        fn = lambda: self._gen(self.key, chm, jargs)
        with seam.seam(self.n_cont):
            paths, stats = seam.explore(fn, max_paths=max_paths)
        return [(self._mk_state(p.result, args, 0, [dict(op="importance", args=args_key(args), constraint={repr(k): v for k, v in constraint.items()})]), p) for p in paths]

    def assess(self, args, asg: dict):
        return self._assess(make_chm(asg), args if self.static_args else to_jax_args(args))

    # ------------------------------------------------------------------------------------
    def build_request(self, spec: Spec):
        if spec.kind == "update":
            return Update(make_chm(spec.constraint or {}))
        if spec.kind == "regenerate":
            return Regenerate(build_selection(spec.selection))
        if spec.kind == "index":
            idx = spec.idx if spec.concrete_idx else jnp.asarray(spec.idx, dtype=jnp.int32)
            return IndexRequest(idx, self.build_request(spec.inner))
        if spec.kind == "static":
            return StaticRequest({a: self.build_request(s) for a, s in spec.constraint.items()})
        if spec.kind == "empty":
            return EmptyRequest()
        if spec.kind == "annotate":
            return DiffAnnotate(self.build_request(spec.inner))
        raise ValueError(spec.kind)

    def apply(self, state: State, spec: Spec, request=None, max_paths=256, key=None):
        """Run the real edit; returns list of (result dict with numpy leaves, seam Path)."""
        new_args = state.args if spec.new_args is None else spec.new_args
        req = request if request is not None else self.build_request(spec)
        k = self.key if key is None else key
        if self.static_args:
            # python-level arguments stay concrete inside the edit: close over the argdiffs
            from .gfi import concrete_args

            ck = ("edit", args_key(new_args), spec.tags)
            if ck not in self._static_edit:
                ad = make_argdiffs(concrete_args(new_args), spec.tags)
                raw = self._edit_raw
                with seam.seam(self.n_cont):
                    self._static_edit[ck] = jax.jit(lambda key, tr, req: raw(key, tr, req, ad))
            jf = self._static_edit[ck]
            fn = lambda: jf(k, state.trace, req)
        else:
            argdiffs = make_argdiffs(to_jax_args(new_args), spec.tags)
            fn = lambda: self._edit(k, state.trace, req, argdiffs)
        with seam.seam(self.n_cont):
            paths, stats = seam.explore(fn, max_paths=max_paths)
        return [(p.result, p) for p in paths], new_args

    def successor(self, state: State, spec: Spec, res, new_args):
        return self._mk_state(res, new_args, state.depth + 1, state.history + [spec.describe()])

    def apply_bwd(self, new_state: State, res, old_args, tags="unknown"):
        """apply the returned backward request with the original argument values"""
        argdiffs = make_argdiffs(to_jax_args(old_args), tags)
        bwd = res["bwd"]
        fn = lambda: self._edit(self.key, new_state.trace, bwd, argdiffs)
        with seam.seam(self.n_cont):
            paths, stats = seam.explore(fn, max_paths=64)
        return [(p.result, p) for p in paths]


# --------------------------------------------------------------------------------------------
# transition alphabets


def alt_values(term, n_cont=2):
    """alternative values for the site described by a reference term (path, lp, kind, params, v)"""
    path, lp, kind, params, v = term
    sup = support(kind, params)
    if sup is None:
        sup = cont_alphabet(kind, params, n_cont + 1)
        return [x for x in sup if abs(x - float(v)) > 1e-6][:n_cont]
    return [x for x in sup if x != v]


def update_specs(node: Node, state: State, args_alphabet, tier: str, max_single=6, max_pairs=1, all_arg_changes=False):
    """constraints: every single present address x alternative value; a few pairs; the empty constraint
    under every argument change."""
    ret, R = ref_run(node, state.args, state.asg)
    terms = R.terms
    specs = []
    singles = []
    for t in terms:
        for v in alt_values(t)[:1 if tier == "quick" else 2]:
            singles.append((t[0], v))
    if len(singles) > max_single:
        singles = singles[: max_single - 2] + singles[-2:]
    for p, v in singles:
        specs.append(Spec("update", constraint={p: v}, tags="nochange", label="single"))
    other_args = [a for a in args_alphabet if args_key(a) != args_key(state.args)]
    specs.append(Spec("update", constraint={}, tags="unknown", label="empty+unknown_tags"))
    for a in other_args[: (None if all_arg_changes else (1 if tier == "quick" else 2))]:
        specs.append(Spec("update", constraint={}, new_args=a, tags="unknown", label="empty+argchange"))
        for p, v in singles[:1 if tier == "quick" else 3]:
            specs.append(Spec("update", constraint={p: v}, new_args=a, tags="unknown", label="single+argchange"))
    pairs = list(itertools.combinations(singles, 2))
    def _clash(p, q):
        # a choice map cannot hold a value and a sub-map at the same static address (documented
        # limitation), also not under different indices of a vector combinator
        a, b = static_part(p), static_part(q)
        n = min(len(a), len(b))
        return len(a) != len(b) and a[:n] == b[:n]

    pairs = [pq for pq in pairs if pq[0][0] != pq[1][0] and not _clash(pq[0][0], pq[1][0])]
    for (p1, v1), (p2, v2) in pairs[:max_pairs if tier == "quick" else 4]:
        specs.append(Spec("update", constraint={p1: v1, p2: v2}, tags="nochange", label="pair"))
    return specs


def static_addresses(universe):
    """distinct static parts and their prefixes"""
    out = []
    for p in universe:
        sp = static_part(p)
        for i in range(1, len(sp) + 1):
            if sp[:i] not in out:
                out.append(sp[:i])
    return out


def regenerate_specs(node: Node, universe, tier: str, state=None, args_alphabet=None):
    sas = static_addresses(universe)
    sels = [("none",), ("all",)]
    for a in sas[: (2 if tier == "quick" else 5)]:
        sels.append(("at", a))
    for a in sas[: (1 if tier == "quick" else 3)]:
        sels.append(("not", ("at", a)))
    if tier != "quick" and len(sas) >= 2:
        sels.append(("or", ("at", sas[0]), ("at", sas[-1])))
        sels.append(("and", ("not", ("at", sas[0])), ("not", ("at", sas[-1]))))
    out = []
    for s in sels:
        out.append(Spec("regenerate", selection=s, tags="nochange", label="regen"))
    # Regenerate together with an argument change
    if state is not None and args_alphabet:
        other = [a for a in args_alphabet if args_key(a) != args_key(state.args)]
        for a in other[:1]:
            for s in sels[1:3]:
                out.append(Spec("regenerate", selection=s, new_args=a, tags="unknown", label="regen+argchange"))
    return out


def retdiff_tags(retdiff):
    """list of (primal ndarray, is_nochange) per Diff leaf, or None if a leaf is not a Diff"""
    leaves = jax.tree_util.tree_leaves(retdiff, is_leaf=lambda v: isinstance(v, Diff))
    out = []
    for l in leaves:
        if not isinstance(l, Diff):
            return None
        out.append((l.primal, type(l.tangent).__name__ == "_NoChange"))
    return out
