"""E2/E3 - program grammar (AST -> real genjax object) and the reference model.

A *Node* is a generative program.  `node.gf()` builds the real genjax generative function by composing
Python closures; `node.ref(R, args, path)` is the reference semantics: a plain-Python/numpy float64
execution which asks the reference context `R` for the value of every random choice the program
text makes (`R.choose(path, kind, params)`) and thereby records the list of log-density terms.
The reference never imports genjax, jax or TFP.

Program text (argument maps, return expressions) is written once as `lambda xp, ...` and evaluated
with xp=jax.numpy for the real program and xp=numpy for the reference.

Unit programs have signature (theta: float) -> ret; raw combinator nodes have their natural
signatures and `Wrap` turns any raw node back into a unit so that combinators nest.
"""

from __future__ import annotations

import itertools
import math
from typing import Any, Callable

import numpy as np

# --------------------------------------------------------------------------------------------
# reference values


class MaskVal:
    """Reference counterpart of genjax.Mask: flag (bool or bool array) and value (or None)."""

    def __init__(self, flag, value):
        self.flag = flag
        self.value = value

    def __repr__(self):
        return f"MaskVal({self.flag}, {self.value})"


class Missing(Exception):
    def __init__(self, path, kind, params):
        self.path, self.kind, self.params = path, kind, params


class RefError(Exception):
    pass


def _logsigmoid(x):
    return -np.logaddexp(0.0, -x)


def logpdf(kind: str, params: tuple, v) -> float:
    with np.errstate(divide="ignore", invalid="ignore"):
        if kind == "flip":
            p = float(params[0])
            return float(np.log(p)) if bool(v) else float(np.log1p(-p))
        if kind == "bern":  # logits
            l = float(params[0])
            return float(_logsigmoid(l)) if int(v) == 1 else float(_logsigmoid(-l))
        if kind == "cat":  # logits vector
            l = np.asarray(params[0], dtype=np.float64)
            lse = np.logaddexp.reduce(l)
            k = int(v)
            if k < 0 or k >= len(l):
                return float("-inf")
            return float(l[k] - lse)
        if kind == "normal":
            mu, sd = float(params[0]), float(params[1])
            z = (float(v) - mu) / sd
            return float(-0.5 * z * z - math.log(sd) - 0.5 * math.log(2 * math.pi))
        if kind == "uniform":
            lo, hi = float(params[0]), float(params[1])
            return float(-math.log(hi - lo)) if lo <= float(v) <= hi else float("-inf")
    raise RefError(f"unknown kind {kind}")


def support(kind: str, params: tuple):
    if kind == "flip":
        return [True, False]
    if kind == "bern":
        return [1, 0]
    if kind == "cat":
        return list(range(len(np.asarray(params[0]))))
    return None  # continuous


Z_ALPHABET = (0.4, -1.3, 2.1)
U_ALPHABET = (0.35, 0.8, 0.1)


def cont_alphabet(kind, params, n=3):
    if kind == "normal":
        return [float(params[0]) + float(params[1]) * z for z in Z_ALPHABET[:n]]
    if kind == "uniform":
        return [float(params[0]) + (float(params[1]) - float(params[0])) * u for u in U_ALPHABET[:n]]
    raise RefError(kind)


class RefCtx:
    """Reference execution context: values come from the finite map `asg` (path -> value)."""

    def __init__(self, asg: dict):
        self.asg = asg
        self.terms: list[tuple] = []  # (path, logp, kind, params, value)
        self.branches: dict = {}  # address prefix of a switch-like combinator -> executed branch

    def choose(self, path, kind, params):
        if path not in self.asg:
            raise Missing(path, kind, params)
        v = self.asg[path]
        lp = logpdf(kind, params, v)
        self.terms.append((path, lp, kind, params, v))
        return v

    def score(self):
        return float(sum(t[1] for t in self.terms))

    def visited(self):
        return [t[0] for t in self.terms]


def ref_run(node: "Node", args, asg):
    R = RefCtx(asg)
    ret = node.ref(R, args, ())
    return ret, R


def ref_enumerate(node: "Node", args, base=None, n_cont=2, limit=100000):
    """All complete assignments (finite supports fully, continuous sites over the alphabet).
    Yields (asg, ret, RefCtx)."""
    out = []
    stack = [dict(base or {})]
    while stack:
        asg = stack.pop()
        try:
            ret, R = ref_run(node, args, asg)
        except Missing as m:
            sup = support(m.kind, m.params)
            if sup is None:
                sup = cont_alphabet(m.kind, m.params, n_cont)
            for v in reversed(sup):
                a2 = dict(asg)
                a2[m.path] = v
                stack.append(a2)
            continue
        out.append((asg, ret, R))
        if len(out) > limit:
            raise RefError("too many assignments")
    return out


# --------------------------------------------------------------------------------------------
# xp-polymorphic program-text helpers


def _is_real_mask(v):
    return type(v).__name__ == "Mask" and hasattr(v, "flag") and hasattr(v, "value")


def num(xp, v):
    """Numeric summary of a return value (float scalar) - part of the program text."""
    if isinstance(v, MaskVal):
        if isinstance(v.flag, (bool, np.bool_)):
            return num(xp, v.value) if v.flag else 0.0
        raise RefError("vector MaskVal in num")
    if _is_real_mask(v):
        f = v.primal_flag()
        return xp.where(f, num(xp, v.value), 0.0)
    if isinstance(v, (tuple, list)):
        tot = 0.0
        for x in v:
            if x is not None:
                tot = tot + num(xp, x)
        return tot
    if v is None:
        return 0.0
    a = xp.asarray(v)
    a = a.astype(xp.float32 if xp is not np else np.float64)
    if a.ndim:
        return a.sum()
    return a


def clipp(xp, c):
    """Map any real to a valid probability - program text."""
    return xp.clip(0.2 + 0.3 * c, 0.1, 0.9)


def mixp(xp, a, theta):
    return xp.where(a > 0.5, theta, 1.0 - 0.5 * theta)


# --------------------------------------------------------------------------------------------
# Node base


class Node:
    name: str = "?"
    kind: str = "?"
    discrete: bool = True
    # which edit requests the composite accepts (library domains, see DESIGN 3.2)
    regen_ok: bool = True
    project_ok: bool = True
    unit: bool = False  # signature (theta,) -> ret

    _gf = None

    def gf(self):
        if self._gf is None:
            self._gf = self.build()
        return self._gf

    def build(self):
        raise NotImplementedError

    def ref(self, R: RefCtx, args, path):
        raise NotImplementedError

    def arg_alphabet(self) -> list[tuple]:
        raise NotImplementedError

    def children(self) -> list["Node"]:
        return []

    def depth(self) -> int:
        ch = self.children()
        d = max([c.depth() for c in ch], default=0)
        return d + (1 if self.kind not in ("dist", "static") else 0)

    def kinds(self) -> set[str]:
        s = {self.kind}
        for c in self.children():
            s |= c.kinds()
        return s

    def features(self) -> set[str]:
        """input-class features used in violation signatures"""
        f = set(getattr(self, "_features", ()))
        if self.kind in ("vmap", "scan", "repeat") and getattr(self, "n", 1) == 0:
            f.add("zero_length")
        for c in self.children():
            f |= c.features()
        return f

    def __repr__(self):
        return self.name


THETAS = (0.3, 0.6, 0.45)


# --------------------------------------------------------------------------------------------
# Leaves


class Flip(Node):
    kind = "dist"
    unit = True
    name = "flip"

    def build(self):
        import genjax

        return genjax.flip

    def ref(self, R, args, path):
        return R.choose(path, "flip", (args[0],))

    def arg_alphabet(self):
        return [(t,) for t in THETAS]


class NormalD(Node):
    """normal(theta, 1.0) wrapped so that it has the unit signature (via contramap)."""

    kind = "dist"
    unit = True
    discrete = False
    name = "normal1"

    def build(self):
        import genjax

        return genjax.normal.contramap(lambda t: (t, 1.0))

    def ref(self, R, args, path):
        return R.choose(path, "normal", (args[0], 1.0))

    def arg_alphabet(self):
        return [(t,) for t in THETAS]

    def kinds(self):
        return {"dist", "dimap"}


# --------------------------------------------------------------------------------------------
# Static language


def addr_tuple(addr):
    return addr if isinstance(addr, tuple) else (addr,)


class Site:
    """One `sub(*argfn(xp,args,env)) @ addr` statement; sub is a Node, or a distribution spec
    ('flip'|'bern'|'cat'|'normal', call-form) handled inline."""

    def __init__(self, addr, sub, argfn, kw=None):
        self.addr = addr
        self.sub = sub
        self.argfn = argfn
        self.kw = kw  # for inline distributions: name of the keyword ('logits') or None


_DIST_GF = {"flip": "flip", "bern": "bernoulli", "cat": "categorical", "normal": "normal", "uniform": "uniform"}


class Static(Node):
    kind = "static"

    def __init__(self, name, nargs, sites: list[Site], retfn, alphabet, unit=True):
        self.name = name
        self.nargs = nargs
        self.sites = sites
        self.retfn = retfn
        self._alphabet = alphabet
        self.unit = unit
        subs = [s.sub for s in sites if isinstance(s.sub, Node)]
        self.discrete = all(n.discrete for n in subs) and all(
            s.sub in ("flip", "bern", "cat") for s in sites if isinstance(s.sub, str)
        )
        self.regen_ok = all(n.regen_ok for n in subs)
        self.project_ok = all(n.project_ok for n in subs)

    def children(self):
        return [s.sub for s in self.sites if isinstance(s.sub, Node)]

    def build(self):
        import genjax
        import jax.numpy as jnp

        sites = self.sites
        retfn = self.retfn
        subs = [(s.sub.gf() if isinstance(s.sub, Node) else getattr(genjax, _DIST_GF[s.sub])) for s in sites]

        def body(*args):
            env = {}
            for s, g in zip(sites, subs):
                a = s.argfn(jnp, args, env)
                if s.kw:
                    env[s.addr] = g(**{s.kw: a[0]}) @ s.addr
                else:
                    env[s.addr] = g(*a) @ s.addr
            return retfn(jnp, args, env)

        body.__name__ = "prog_" + "".join(c if c.isalnum() else "_" for c in self.name)
        return genjax.gen(body)

    def ref(self, R, args, path):
        env = {}
        for s in self.sites:
            a = s.argfn(np, args, env)
            p = path + addr_tuple(s.addr)
            if isinstance(s.sub, Node):
                env[s.addr] = s.sub.ref(R, tuple(a), p)
            else:
                env[s.addr] = R.choose(p, s.sub, tuple(a))
        return self.retfn(np, args, env)

    def arg_alphabet(self):
        return list(self._alphabet)


def _f(xp, v):
    """float cast usable in both worlds"""
    return xp.asarray(v).astype(xp.float32 if xp is not np else np.float64)


def one(U: Node, addr="a") -> Static:
    return Static(
        f"one[{addr!r}]({U.name})",
        1,
        [Site(addr, U, lambda xp, args, env: (args[0],))],
        lambda xp, args, env, addr=addr: num(xp, env[addr]),
        [(t,) for t in THETAS],
    )


def two(U: Node, V: Node) -> Static:
    return Static(
        f"two({U.name},{V.name})",
        1,
        [
            Site("a", U, lambda xp, args, env: (args[0],)),
            Site("b", V, lambda xp, args, env: (mixp(xp, num(xp, env["a"]), args[0]),)),
        ],
        lambda xp, args, env: num(xp, env["a"]) + 2.0 * num(xp, env["b"]),
        [(t,) for t in THETAS],
    )


def nested_first(U: Node) -> Static:
    """nested static call at the first address followed by a leaf (the key-reuse shape)."""
    inner = Static(
        f"inner({U.name})",
        1,
        [
            Site("x", U, lambda xp, args, env: (args[0],)),
            Site("y", "flip", lambda xp, args, env: (0.5,)),
        ],
        lambda xp, args, env: num(xp, env["x"]) + num(xp, env["y"]),
        [(t,) for t in THETAS],
    )
    return Static(
        f"nested_first({U.name})",
        1,
        [
            Site("i", inner, lambda xp, args, env: (args[0],)),
            Site("z", "flip", lambda xp, args, env: (0.4,)),
        ],
        lambda xp, args, env: num(xp, env["i"]) + 3.0 * num(xp, env["z"]),
        [(t,) for t in THETAS],
    )


def lit(U: Node) -> Static:
    """return value containing a literal constant (the retdiff shape)."""
    return Static(
        f"lit({U.name})",
        1,
        [Site("a", U, lambda xp, args, env: (args[0],))],
        lambda xp, args, env: (num(xp, env["a"]), 1.0),
        [(t,) for t in THETAS],
    )


def kwdists() -> Static:
    """keyword-argument distributions and a categorical."""
    return Static(
        "kwdists",
        1,
        [
            Site("b", "bern", lambda xp, args, env: (args[0] * 2.0 - 0.5,), kw="logits"),
            Site(
                "c",
                "cat",
                lambda xp, args, env: (xp.stack([_f(xp, 0.0), _f(xp, args[0]), _f(xp, env["b"]) * 1.0]),),
                kw="logits",
            ),
        ],
        lambda xp, args, env: _f(xp, env["b"]) + 0.5 * _f(xp, env["c"]),
        [(t,) for t in THETAS],
    )


def flipnorm() -> Static:
    n = Static(
        "flipnorm",
        1,
        [
            Site("a", "flip", lambda xp, args, env: (args[0],)),
            Site("x", "normal", lambda xp, args, env: (_f(xp, env["a"]) * 1.0 + args[0], 1.5)),
        ],
        lambda xp, args, env: env["x"] * 0.5,
        [(t,) for t in THETAS],
    )
    return n


def tupaddr(U: Node) -> Static:
    return Static(
        f"tup({U.name})",
        1,
        [
            Site(("u", "v"), U, lambda xp, args, env: (args[0],)),
            Site(("u", "w"), "flip", lambda xp, args, env: (mixp(xp, num(xp, env[("u", "v")]), args[0]),)),
        ],
        lambda xp, args, env: num(xp, env[("u", "v")]) - num(xp, env[("u", "w")]),
        [(t,) for t in THETAS],
    )


def pair2() -> Static:
    """two-argument program (for in_axes variants)"""
    return Static(
        "pair2",
        2,
        [
            Site("a", "flip", lambda xp, args, env: (args[0],)),
            Site("b", "flip", lambda xp, args, env: (mixp(xp, _f(xp, env["a"]), args[1]),)),
        ],
        lambda xp, args, env: _f(xp, env["a"]) + 2.0 * _f(xp, env["b"]) + args[1],
        [(0.3, 0.6), (0.6, 0.45)],
        unit=False,
    )


# --------------------------------------------------------------------------------------------
# Raw combinator nodes


def _stack(vals):
    """tree-stack a list of reference return values"""
    if not vals:
        return np.zeros((0,))
    v0 = vals[0]
    if isinstance(v0, tuple):
        return tuple(_stack([v[i] for v in vals]) for i in range(len(v0)))
    if isinstance(v0, MaskVal):
        flags = np.array([bool(v.flag) for v in vals])
        present = [v.value for v in vals if bool(v.flag)]
        if present:
            proto = present[0]
            filled = [v.value if bool(v.flag) else _zeros_like(proto) for v in vals]
            return MaskVal(flags, _stack(filled))
        return MaskVal(flags, None)
    if v0 is None:
        return None
    return np.stack([np.asarray(v) for v in vals])


def _zeros_like(v):
    if isinstance(v, tuple):
        return tuple(_zeros_like(x) for x in v)
    if isinstance(v, MaskVal):
        return MaskVal(np.zeros_like(np.asarray(v.flag)), None if v.value is None else _zeros_like(v.value))
    if v is None:
        return None
    return np.zeros_like(np.asarray(v))


class Vmap(Node):
    kind = "vmap"
    regen_ok = False

    def __init__(self, sub: Node, n: int, in_axes=0):
        self.sub, self.n, self.in_axes = sub, n, in_axes
        self.name = f"vmap[{n},{in_axes}]({sub.name})"
        self.discrete = sub.discrete
        self.project_ok = sub.project_ok

    def children(self):
        return [self.sub]

    def build(self):
        return self.sub.gf().vmap(in_axes=self.in_axes)

    def _axes(self, nargs):
        ia = self.in_axes
        if isinstance(ia, int):
            return (ia,) * nargs
        return tuple(ia)

    def ref(self, R, args, path):
        axes = self._axes(len(args))
        n = None
        for a, ax in zip(args, axes):
            if ax is not None:
                n = np.asarray(a).shape[ax]
        rets = []
        for i in range(n):
            sl = tuple((np.take(np.asarray(a), i, axis=ax) if ax is not None else a) for a, ax in zip(args, axes))
            rets.append(self.sub.ref(R, sl, path + (i,)))
        return _stack(rets)

    def arg_alphabet(self):
        sub = self.sub.arg_alphabet()
        nargs = len(sub[0])
        axes = self._axes(nargs)
        out = []
        for j in range(2):
            tup = []
            for k, ax in enumerate(axes):
                if ax is None:
                    tup.append(sub[j % len(sub)][k])
                else:
                    tup.append(np.array([sub[(i + j) % len(sub)][k] for i in range(self.n)], dtype=np.float32))
            out.append(tuple(tup))
        return out


class Repeat(Node):
    kind = "repeat"
    regen_ok = False
    unit = True

    def __init__(self, sub: Node, n: int):
        self.sub, self.n = sub, n
        self.name = f"repeat[{n}]({sub.name})"
        self.discrete = sub.discrete
        self.project_ok = sub.project_ok

    def children(self):
        return [self.sub]

    def kinds(self):
        return {"repeat", "vmap", "dimap"} | self.sub.kinds()

    def build(self):
        return self.sub.gf().repeat(n=self.n)

    def ref(self, R, args, path):
        return _stack([self.sub.ref(R, args, path + (i,)) for i in range(self.n)])

    def arg_alphabet(self):
        return self.sub.arg_alphabet()


class Kernel(Static):
    """(carry, x) -> (carry', y) kernel around a unit program."""

    pass


def kern(U: Node, use_x=True) -> Static:
    def ret(xp, args, env):
        s = num(xp, env["s"])
        x = args[1] if (use_x and args[1] is not None) else 0.0
        return (args[0] * 0.5 + s, s + x)

    return Static(
        f"kern({U.name})",
        2,
        [Site("s", U, lambda xp, args, env: (clipp(xp, args[0]),))],
        ret,
        [],
        unit=False,
    )


def kern_indep(U: Node) -> Static:
    """kernel whose carry does not depend on its choices (the domain of Scan's IndexRequest)"""
    return Static(
        f"kern_indep({U.name})",
        2,
        [Site("s", U, lambda xp, args, env: (clipp(xp, args[0] + (args[1] if args[1] is not None else 0.0)),))],
        lambda xp, args, env: (args[0] + 0.5, num(xp, env["s"]) + (args[1] if args[1] is not None else 0.0)),
        [],
        unit=False,
    )


def kern_chain(U: Node) -> Static:
    """kernel whose carry IS its choice (a random walk): the next step's density depends on the edited
    choice, while the step's own return diff stays NoChange when only its input carry changes"""
    return Static(
        f"kern_chain({U.name})",
        2,
        [Site("s", U, lambda xp, args, env: (clipp(xp, args[0]),))],
        lambda xp, args, env: (num(xp, env["s"]) * 1.0, args[1] if args[1] is not None else 0.0),
        [],
        unit=False,
    )


def kern_det() -> Static:
    return Static(
        "kern_det",
        2,
        [],
        lambda xp, args, env: (args[0] + args[1], args[0] * args[0]),
        [],
        unit=False,
    )


class Scan(Node):
    kind = "scan"

    def __init__(self, kernel: Node, n: int, xs: bool = True):
        self.kernel, self.n, self.xs = kernel, n, xs
        self.name = f"scan[{n},{'xs' if xs else 'None'}]({kernel.name})"
        self.discrete = kernel.discrete
        self.regen_ok = kernel.regen_ok
        self.project_ok = kernel.project_ok

    def children(self):
        return [self.kernel]

    def build(self):
        return self.kernel.gf().scan(n=None if self.xs else self.n)

    def ref(self, R, args, path):
        carry, xs = args
        ys = []
        n = self.n if xs is None else np.asarray(xs).shape[0]
        for i in range(n):
            x = None if xs is None else np.asarray(xs)[i]
            carry, y = self.kernel.ref(R, (carry, x), path + (i,))
            ys.append(y)
        return (carry, _stack(ys) if ys else np.zeros((0,)))

    def arg_alphabet(self):
        if self.xs:
            return [
                (0.5, np.arange(self.n, dtype=np.float32) * 0.25),
                (1.0, np.ones(self.n, dtype=np.float32) * 0.5),
            ]
        return [(0.5, None), (1.0, None)]


class Switch(Node):
    kind = "switch"
    regen_ok = False

    def __init__(self, branches: list[Node]):
        self.branches = branches
        self.name = "switch(" + ",".join(b.name for b in branches) + ")"
        self.discrete = all(b.discrete for b in branches)
        self.project_ok = all(b.project_ok for b in branches)

    def children(self):
        return list(self.branches)

    def build(self):
        import genjax

        return genjax.switch(*[b.gf() for b in self.branches])

    def ref(self, R, args, path):
        idx = int(args[0])
        k = min(max(idx, 0), len(self.branches) - 1)
        R.branches[path] = k
        return self.branches[k].ref(R, tuple(args[1 + k]), path)

    def arg_alphabet(self):
        alphs = [b.arg_alphabet() for b in self.branches]
        out = []
        for idx in range(len(self.branches)):
            for j in range(2):
                out.append((idx,) + tuple(a[(j + i) % len(a)] for i, a in enumerate(alphs)))
        return out


class MaskN(Node):
    kind = "mask"
    regen_ok = False
    project_ok = False

    def __init__(self, sub: Node):
        self.sub = sub
        self.name = f"mask({sub.name})"
        self.discrete = sub.discrete

    def children(self):
        return [self.sub]

    def build(self):
        return self.sub.gf().mask()

    def ref(self, R, args, path):
        flag = bool(args[0])
        if flag:
            return MaskVal(True, self.sub.ref(R, tuple(args[1:]), path))
        return MaskVal(False, None)

    def arg_alphabet(self):
        out = []
        for flag in (True, False):
            for a in self.sub.arg_alphabet()[:2]:
                out.append((flag,) + tuple(a))
        return out


class Dimap(Node):
    kind = "dimap"

    def __init__(self, sub: Node, pre, post, alphabet, name):
        self.sub, self.pre, self.post = sub, pre, post
        self._alphabet = alphabet
        self.name = f"dimap[{name}]({sub.name})"
        self.discrete = sub.discrete
        self.regen_ok = sub.regen_ok
        self.project_ok = sub.project_ok

    def children(self):
        return [self.sub]

    def build(self):
        import jax.numpy as jnp

        pre, post = self.pre, self.post
        return self.sub.gf().dimap(
            pre=lambda *args: pre(jnp, *args),
            post=lambda args, xf, ret: post(jnp, args, xf, ret),
        )

    def ref(self, R, args, path):
        inner_args = tuple(self.pre(np, *args))
        r = self.sub.ref(R, inner_args, path)
        return self.post(np, tuple(args), inner_args, r)

    def arg_alphabet(self):
        return list(self._alphabet)


def dimap_std(U: Node) -> Dimap:
    """(theta, extra) -> pre: (clip(theta*extra)) ; post: ret*2 + args[1]"""
    return Dimap(
        U,
        lambda xp, t, e: (xp.clip(t * e, 0.1, 0.9),),
        lambda xp, args, xf, ret: (num(xp, ret) * 2.0 + args[1], xf[0]),
        [(0.3, 2.0), (0.6, 1.5), (0.45, 1.0)],
        "std",
    )


class OrElse(Node):
    kind = "or_else"
    regen_ok = False

    def __init__(self, a: Node, b: Node):
        self.a, self.b = a, b
        self.name = f"or_else({a.name},{b.name})"
        self.discrete = a.discrete and b.discrete
        self.project_ok = a.project_ok and b.project_ok

    def children(self):
        return [self.a, self.b]

    def kinds(self):
        return {"or_else", "switch", "dimap"} | self.a.kinds() | self.b.kinds()

    def build(self):
        return self.a.gf().or_else(self.b.gf())

    def ref(self, R, args, path):
        flag, aa, ba = args
        R.branches[path] = 0 if bool(flag) else 1
        if bool(flag):
            return self.a.ref(R, tuple(aa), path)
        return self.b.ref(R, tuple(ba), path)

    def arg_alphabet(self):
        A, B = self.a.arg_alphabet(), self.b.arg_alphabet()
        return [(True, A[0], B[1 % len(B)]), (False, A[1 % len(A)], B[0])]


class Mix(Node):
    kind = "mix"
    regen_ok = False

    def __init__(self, branches: list[Node]):
        self.branches = branches
        self.name = "mix(" + ",".join(b.name for b in branches) + ")"
        self.discrete = all(b.discrete for b in branches)
        self.project_ok = all(b.project_ok for b in branches)

    def children(self):
        return list(self.branches)

    def kinds(self):
        s = {"mix", "switch", "static"}
        for b in self.branches:
            s |= b.kinds()
        return s

    def build(self):
        import genjax

        return genjax.mix(*[b.gf() for b in self.branches])

    def ref(self, R, args, path):
        logits = np.asarray(args[0], dtype=np.float64)
        k = int(R.choose(path + ("mixture_component",), "cat", (logits,)))
        R.branches[path + ("component_sample",)] = k
        return self.branches[k].ref(R, tuple(args[1 + k]), path + ("component_sample",))

    def arg_alphabet(self):
        alphs = [b.arg_alphabet() for b in self.branches]
        n = len(self.branches)
        l1 = np.array([0.0, 0.7, -0.4][:n], dtype=np.float32)
        l2 = np.array([0.5, -0.5, 1.0][:n], dtype=np.float32)
        return [
            (l1,) + tuple(a[i % len(a)] for i, a in enumerate(alphs)),
            (l2,) + tuple(a[(i + 1) % len(a)] for i, a in enumerate(alphs)),
        ]


def stepf(U: Node) -> Static:
    """x -> x' step function for iterate-style combinators (float in, float out)."""
    return Static(
        f"step({U.name})",
        1,
        [Site("s", U, lambda xp, args, env: (clipp(xp, args[0]),))],
        lambda xp, args, env: args[0] * 0.5 + num(xp, env["s"]) + 0.25,
        [(0.5,), (1.0,)],
    )


def accf(U: Node) -> Static:
    """(carry, x) -> carry' for accumulate / reduce"""
    return Static(
        f"acc({U.name})",
        2,
        [Site("s", U, lambda xp, args, env: (clipp(xp, args[0] + args[1]),))],
        lambda xp, args, env: args[0] * 0.5 + num(xp, env["s"]) + args[1],
        [],
        unit=False,
    )


class Derived(Node):
    """iterate / iterate_final / accumulate / reduce / masked_iterate / masked_iterate_final:
    built with the library method, reference = the documented Python loop."""

    def __init__(self, which: str, f: Node, n: int):
        self.which, self.f, self.n = which, f, n
        self.kind = which
        self.name = f"{which}[{n}]({f.name})"
        self.discrete = f.discrete
        self.regen_ok = f.regen_ok and which not in ("masked_iterate", "masked_iterate_final")
        self.project_ok = f.project_ok and which not in ("masked_iterate", "masked_iterate_final")

    def children(self):
        return [self.f]

    def kinds(self):
        base = {self.which, "scan", "dimap"}
        if self.which.startswith("masked"):
            base.add("mask")
        return base | self.f.kinds()

    def build(self):
        g = self.f.gf()
        w = self.which
        if w == "iterate":
            return g.iterate(n=self.n)
        if w == "iterate_final":
            return g.iterate_final(n=self.n)
        if w == "accumulate":
            return g.accumulate()
        if w == "reduce":
            return g.reduce()
        if w == "masked_iterate":
            return g.masked_iterate()
        if w == "masked_iterate_final":
            return g.masked_iterate_final()
        raise ValueError(w)

    def ref(self, R, args, path):
        w = self.which
        f = self.f
        if w == "iterate":
            x = args[0]
            seen = [x]
            for i in range(self.n):
                x = f.ref(R, (x,), path + (i,))
                seen.append(x)
            return np.stack([np.asarray(s, dtype=np.float64) for s in seen])
        if w == "iterate_final":
            x = args[0]
            for i in range(self.n):
                x = f.ref(R, (x,), path + (i,))
            return x
        if w == "accumulate":
            c, xs = args
            cs = [c]
            for i, x in enumerate(np.asarray(xs)):
                c = f.ref(R, (c, x), path + (i,))
                cs.append(c)
            return np.stack([np.asarray(s, dtype=np.float64) for s in cs])
        if w == "reduce":
            c, xs = args
            for i, x in enumerate(np.asarray(xs)):
                c = f.ref(R, (c, x), path + (i,))
            return c
        if w in ("masked_iterate", "masked_iterate_final"):
            x, flags = args
            seen = [x]
            for i, fl in enumerate(np.asarray(flags)):
                if bool(fl):
                    x = f.ref(R, (x,), path + (i,))
                seen.append(x)
            if w == "masked_iterate_final":
                return x
            return np.stack([np.asarray(s, dtype=np.float64) for s in seen])
        raise ValueError(w)

    def arg_alphabet(self):
        w = self.which
        if w in ("iterate", "iterate_final"):
            return [(0.5,), (1.0,)]
        if w in ("accumulate", "reduce"):
            return [
                (0.5, np.arange(self.n, dtype=np.float32) * 0.25),
                (1.0, np.ones(self.n, dtype=np.float32) * 0.5),
            ]
        pats = [
            np.array([(i % 2 == 0) for i in range(self.n)]),
            np.array([(i % 2 == 1) for i in range(self.n)]),
        ]
        return [(0.5, pats[0]), (1.0, pats[1])]


# --------------------------------------------------------------------------------------------
# Wrap: raw node -> unit


class Wrap(Static):
    pass


def wrap(raw: Node, variant: int = 0) -> Static:
    """Unit program calling `raw` at address 's' with arguments computed from theta."""
    k = raw.kind
    if k == "vmap":
        n = raw.n

        def argfn(xp, args, env):
            return (args[0] * xp.asarray(np.array([1.0, 0.5, 0.75, 0.9][:n], dtype=np.float32)),)

    elif k == "scan":
        n = raw.n
        if raw.xs:

            def argfn(xp, args, env):
                return (args[0] * 1.0, xp.asarray(np.arange(n, dtype=np.float32) * 0.25))

        else:

            def argfn(xp, args, env):
                return (args[0] * 1.0, None)

    elif k == "switch":
        nb = len(raw.branches)
        if variant == 0:
            # traced index that depends on theta -> index changes when theta changes
            def argfn(xp, args, env):
                idx = xp.where(args[0] > 0.5, 1, 0)
                return (idx,) + tuple((args[0],) for _ in range(nb))

        else:

            def argfn(xp, args, env):
                return (1,) + tuple((args[0],) for _ in range(nb))

    elif k == "mask":
        if variant == 0:

            def argfn(xp, args, env):
                return (args[0] < 0.5, args[0])

        elif variant == 1:

            def argfn(xp, args, env):
                return (True, args[0])

        else:

            def argfn(xp, args, env):
                return (False, args[0])

    elif k == "dimap":

        def argfn(xp, args, env):
            return (args[0], 1.5)

    elif k == "or_else":

        def argfn(xp, args, env):
            return (args[0] > 0.5, (args[0],), (args[0],))

    elif k == "mix":
        nb = len(raw.branches)

        def argfn(xp, args, env):
            lg = xp.asarray(np.array([0.0, 0.7, -0.4][:nb], dtype=np.float32)) * args[0]
            return (lg,) + tuple((args[0],) for _ in range(nb))

    elif k in ("iterate", "iterate_final"):

        def argfn(xp, args, env):
            return (args[0] * 1.0,)

    elif k in ("accumulate", "reduce"):
        n = raw.n

        def argfn(xp, args, env):
            return (args[0] * 1.0, xp.asarray(np.arange(n, dtype=np.float32) * 0.25))

    elif k in ("masked_iterate", "masked_iterate_final"):
        n = raw.n

        def argfn(xp, args, env):
            return (args[0] * 1.0, xp.asarray(np.array([(i % 2 == 0) for i in range(n)])))

    elif k == "repeat" or raw.unit:

        def argfn(xp, args, env):
            return (args[0],)

    else:
        raise ValueError(f"cannot wrap {k}")

    w = Static(
        f"wrap{variant}({raw.name})",
        1,
        [Site("s", raw, argfn)],
        lambda xp, args, env: num(xp, env["s"]),
        [(t,) for t in THETAS],
    )
    if k == "mask" and variant == 2:
        w._features = ("mask_concrete_false",)
    if k == "mask" and variant == 1:
        w._features = ("mask_concrete_true",)
    if k == "switch" and variant == 1:
        w._features = ("switch_concrete_idx",)
    return w


def _dep_args(raw: Node):
    """argument map for `raw` computed from an EARLIER CHOICE a (and theta): the choice controls the
    combinator's arguments (vmap parameters, scan carry, switch index, mask / or_else flag, ...)"""
    k = raw.kind
    if k == "vmap":
        n = raw.n
        return lambda xp, args, env: (args[0] * (0.5 + 0.5 * _f(xp, env["a"])) * xp.asarray(np.array([1.0, 0.5, 0.75, 0.9][:n], dtype=np.float32)),)
    if k == "scan":
        n = raw.n
        if raw.xs:
            return lambda xp, args, env: (args[0] + _f(xp, env["a"]), xp.asarray(np.arange(n, dtype=np.float32) * 0.25))
        return lambda xp, args, env: (args[0] + _f(xp, env["a"]), None)
    if k == "switch":
        nb = len(raw.branches)
        return lambda xp, args, env: (xp.asarray(env["a"]).astype(xp.int32),) + tuple((args[0],) for _ in range(nb))
    if k == "mask":
        return lambda xp, args, env: (env["a"], args[0])
    if k == "dimap":
        return lambda xp, args, env: (args[0], 1.0 + _f(xp, env["a"]))
    if k == "or_else":
        return lambda xp, args, env: (env["a"], (args[0],), (args[0],))
    if k == "mix":
        nb = len(raw.branches)
        return lambda xp, args, env: (xp.asarray(np.array([0.0, 0.7, -0.4][:nb], dtype=np.float32)) * (1.0 + _f(xp, env["a"])),) + tuple((args[0],) for _ in range(nb))
    if k in ("iterate", "iterate_final"):
        return lambda xp, args, env: (args[0] + _f(xp, env["a"]),)
    if k in ("accumulate", "reduce"):
        n = raw.n
        return lambda xp, args, env: (args[0] + _f(xp, env["a"]), xp.asarray(np.arange(n, dtype=np.float32) * 0.25))
    if k in ("masked_iterate", "masked_iterate_final"):
        n = raw.n
        return lambda xp, args, env: (args[0] * 1.0, xp.logical_or(xp.asarray(np.array([(i % 2 == 0) for i in range(n)])), xp.asarray(env["a"])))
    if k == "repeat" or raw.unit:
        return lambda xp, args, env: (mixp(xp, _f(xp, env["a"]), args[0]),)
    raise ValueError(k)


def dep(raw: Node) -> Static:
    """a ~ flip(theta); s ~ raw(args computed from a): an earlier choice controls the combinator"""
    return Static(
        f"dep({raw.name})",
        1,
        [Site("a", "flip", lambda xp, args, env: (args[0],)), Site("s", raw, _dep_args(raw))],
        lambda xp, args, env: num(xp, env["s"]) + _f(xp, env["a"]),
        [(t,) for t in THETAS],
    )


def vec_then_leaf(raw: Node) -> Static:
    """a vectorised call at a non-final address followed by sibling leaves (key-derivation shape)"""
    w = wrap(raw)
    argfn = w.sites[0].argfn
    return Static(
        f"vec_then_leaf({raw.name})",
        1,
        [Site("v", raw, argfn), Site("y", "flip", lambda xp, args, env: (0.5,)), Site("z", "flip", lambda xp, args, env: (0.4,))],
        lambda xp, args, env: num(xp, env["v"]) + _f(xp, env["y"]) + 2.0 * _f(xp, env["z"]),
        [(t,) for t in THETAS],
    )


def leaf_then_vec(raw: Node) -> Static:
    w = wrap(raw)
    argfn = w.sites[0].argfn
    return Static(
        f"leaf_then_vec({raw.name})",
        1,
        [Site("y", "flip", lambda xp, args, env: (0.5,)), Site("v", raw, argfn), Site("z", "flip", lambda xp, args, env: (0.4,))],
        lambda xp, args, env: num(xp, env["v"]) + _f(xp, env["y"]) + 2.0 * _f(xp, env["z"]),
        [(t,) for t in THETAS],
    )


# --------------------------------------------------------------------------------------------
# catalog


def leaf_units(continuous=False) -> list[Node]:
    us: list[Node] = [Flip(), two(Flip(), Flip()), kwdists()]
    if continuous:
        us += [NormalD(), flipnorm()]
    return us


def raw_over(U: Node, n: int = 2) -> list[Node]:
    """every raw combinator applied to unit U"""
    out: list[Node] = [
        Vmap(U, n, 0),
        Repeat(U, n),
        Scan(kern(U), n, xs=True),
        Switch([U, two(U, Flip())]),
        MaskN(U),
        dimap_std(U),
        OrElse(U, one(U, "e")),
        Mix([U, one(U, "m")]),
        Derived("iterate", stepf(U), n),
        Derived("iterate_final", stepf(U), n),
        Derived("accumulate", accf(U), n),
        Derived("reduce", accf(U), n),
        Derived("masked_iterate", stepf(U), n),
        Derived("masked_iterate_final", stepf(U), n),
    ]
    return out


def catalog(tier: str, continuous: bool = True) -> list[Node]:
    """Programs: static templates over leaves; every raw combinator over leaf units (depth 1);
    every raw combinator over wrapped raw combinators (depth 2: all ordered pairs outer x inner)."""
    progs: list[Node] = []
    f = Flip()
    progs += [
        f,
        one(f),
        two(f, f),
        nested_first(f),
        lit(f),
        kwdists(),
        tupaddr(f),
        pair2(),
    ]
    if continuous:
        progs += [NormalD(), flipnorm(), two(NormalD(), f)]
    # depth 1
    d1 = raw_over(f, 2)
    progs += d1
    progs += [Scan(kern(nested_first(f)), 3, xs=False), Scan(kern(f), 3, xs=False), Scan(kern_det(), 3, xs=True)]
    progs += [Vmap(pair2(), 2, (0, None)), Vmap(pair2(), 2, (None, 0)), Vmap(f, 0, 0), Vmap(two(f, f), 3, 0), Vmap(f, 1, 0)]
    progs += [Scan(kern(f), 0, xs=True), Scan(kern(f), 1, xs=True)]
    if continuous:
        progs += [Vmap(flipnorm(), 2, 0), Scan(kern(NormalD()), 2, xs=True), Switch([flipnorm(), f]), MaskN(flipnorm())]
    # an earlier choice controls the combinator's arguments; vector calls with sibling sites
    for raw in raw_over(f, 2):
        progs.append(dep(raw))
    progs += [
        vec_then_leaf(Vmap(f, 3, 0)), vec_then_leaf(Repeat(f, 3)), vec_then_leaf(Scan(kern(f), 3, xs=False)),
        leaf_then_vec(Vmap(f, 3, 0)), leaf_then_vec(Scan(kern(f), 2, xs=True)),
        Scan(kern_indep(f), 3, xs=True), dep(Scan(kern_indep(f), 2, xs=True)), Scan(kern_chain(f), 3, xs=True),
    ]
    # depth 2: outer over wrapped inner
    main = ("vmap", "repeat", "scan", "switch", "mask", "dimap", "or_else", "mix")
    inners = raw_over(f, 2)
    for inner in inners:
        variants = [0]
        if inner.kind == "switch":
            variants = [0, 1]
        if inner.kind == "mask":
            variants = [0, 1, 2]
        for v in variants:
            w = wrap(inner, v)
            outers = raw_over(w, 2)
            if tier == "quick":
                # pair-covering subset: all ordered pairs of the eight main combinators; each derived
                # scan combinator appears once as outer and once as inner
                if inner.kind in main:
                    keep = [o for o in outers if o.kind in main]
                    j = (len(progs) // 7) % 6
                    keep.append([o for o in outers if o.kind not in main][j])
                else:
                    keep = [o for o in outers if o.kind in ("vmap", "scan", "switch")]
                if v != 0:
                    keep = [o for o in keep if o.kind in ("vmap", "scan", "switch", "mask")]
                outers = keep
            progs += outers
    # de-duplicate by name
    seen = set()
    out = []
    for p in progs:
        if p.name in seen:
            continue
        seen.add(p.name)
        out.append(p)
    return out


def component_of(node):
    ks = sorted(node.kinds() - {"static", "dist"})
    return "+".join(ks) if ks else "static"


def rotate(seq, seed):
    seq = list(seq)
    if not seq:
        return seq
    k = seed % len(seq)
    return seq[k:] + seq[:k]
