"""C13 - switch, or_else and mix follow exactly one branch consistently.

Enumerated: branch lists with disjoint, overlapping and heterogeneous addresses and differing return
dtypes x indices {-2,-1,0,...,n-1,n,n+3} given as traced arrays AND as concrete Python ints x
or_else flags (array and concrete bool) x mixture logits alphabet.  Operations: complete simulate
tree, assess over all assignments, importance over partial constraints, update histories, project.
Oracle: the combinator behaves as branch clamp(k) alone for ALL of score, return value, choices,
weights - the same clamped k for each (reference Switch clamps and runs one branch); a mix's score is
the categorical log-probability of the component plus that component's score."""

from __future__ import annotations

import numpy as np

from ..common import Case
from .. import gfi, grammar, seam, combo
from ..grammar import Flip, Mix, OrElse, Static, Site, Switch, component_of, flipnorm, kwdists, one, two, num, _f
from ..harness import Prog, args_key, base_key, norm_ret
from ..space import Space

PROPERTY = "C13"
LEVEL = "exploration"
RULE = (
    "switch/or_else/mix programs x index alphabet (in range, negative, beyond range; traced array and concrete int) "
    "x ops (simulate tree, assess, importance, update, project); distinct = (program,args,op,assignment); "
    "non-trivial = >= 1 random choice in the executed branch"
)
ASSUMPTIONS = [
    "documented behaviour: an out-of-range index is clamped; reference runs branch clamp(idx) alone",
    "reference model mc/grammar.py",
]
BOUNDS = {"quick": dict(indices="-1,0,n-1,n as array and int"), "thorough": dict(indices="-2..n+3 as array and int")}
JOBS = {"quick": 14, "thorough": 16}


def intret() -> Static:
    """branch with an int return value (differing return dtypes across branches)"""
    return Static(
        "intret",
        1,
        [Site("c", "cat", lambda xp, args, env: (xp.stack([_f(xp, 0.0), _f(xp, args[0]), _f(xp, 1.0)]),), kw="logits")],
        lambda xp, args, env: env["c"],
        [(t,) for t in grammar.THETAS],
    )


class SwitchIdx(Switch):
    """Switch with an explicit index alphabet"""

    def __init__(self, branches, idxs, tag):
        super().__init__(branches)
        self.idxs = idxs
        self.name = f"switch[{tag}](" + ",".join(b.name for b in branches) + ")"
        if any(i < 0 or i >= len(branches) for i in idxs):
            self._features = ("idx_out_of_range",)

    def arg_alphabet(self):
        alphs = [b.arg_alphabet() for b in self.branches]
        out = []
        for j, idx in enumerate(self.idxs):
            out.append((idx,) + tuple(a[(j + i) % len(a)] for i, a in enumerate(alphs)))
        return out


def programs(tier):
    f = Flip()
    progs = []
    branch_sets = {
        "disjoint": [one(f, "p"), one(f, "q")],
        "overlap": [one(f, "a"), two(f, f)],
        "hetero": [f, two(f, f)],
        "dtype": [one(f, "a"), intret()],
        "three": [one(f, "p"), one(f, "q"), two(f, f)],
        "cont": [flipnorm(), one(f, "a")],
    }
    for tag, bs in branch_sets.items():
        if tier == "quick" and tag in ("hetero", "three", "cont"):
            continue
        n = len(bs)
        inr = list(range(n))
        oor = [-1, n] if tier == "quick" else [-2, -1, n, n + 3]
        progs.append((SwitchIdx(bs, inr, tag + ",in"), False))
        progs.append((SwitchIdx(bs, inr, tag + ",in,int"), True))
        if tag in ("disjoint", "overlap", "three") or tier == "thorough":
            progs.append((SwitchIdx(bs, oor, tag + ",oor"), False))
            progs.append((SwitchIdx(bs, oor, tag + ",oor,int"), True))
    progs.append((OrElse(one(f, "p"), one(f, "q")), False))
    progs.append((OrElse(one(f, "a"), two(f, f)), False))
    o = OrElse(one(f, "a"), two(f, f))
    o.name = o.name + "[bool]"
    progs.append((o, True))
    progs.append((Mix([one(f, "p"), one(f, "q")]), False))
    progs.append((Mix([one(f, "a"), two(f, f), one(f, "z")]), False))
    progs.append((Mix([f, one(f, "m")]), False))
    return progs


def _run(node, static_args, tier, seed):
    def run(ctx):
        comp = component_of(node)
        feats = "".join(":" + x for x in sorted(node.features() & {"idx_out_of_range"}))
        cls = ("int" if static_args else "array") + feats
        prog = Prog(node, n_cont=2)
        key = base_key(seed)
        alph = node.arg_alphabet()
        if static_args and tier == "quick":
            alph = alph[:3]
        ncons = (2 if static_args else 4) if tier == "quick" else 8
        space = Space(prog, key, alph, static_args=static_args)
        for args in alph:
            # simulate tree
            try:
                tree = gfi.SimTree(prog, args, key, max_paths=512, static_args=static_args)
            except Exception as e:
                ctx.ev((node.name, args_key(args), "simulate", "raised"), nontrivial=True)
                ctx.fail(comp, "simulate", cls, f"exception:{type(e).__name__}", dict(program=node.name, args=args_key(args), msg=str(e)[:300]))
                continue
            for p in tree.paths:
                asg = tree.path_asg(p)
                ctx.ev((node.name, args_key(args), "simulate", gfi.asg_key(asg)), nontrivial=True)
                gfi.check_trace_against_ref(_C(ctx, comp, cls), node, args, asg, p.result["score"], norm_ret(p.result["retval"]), cls, "simulate")
            if node.discrete:
                gfi.distribution_check(_C(ctx, comp, cls), node, args, tree, "simulate")
            # importance with every single-address constraint and the full constraint
            from .c03 import constraints_for, BOUNDS as B3
            from ..grammar import ref_run, Missing
            from ..common import close
            from ..bfs import _val_eq

            enum = prog.enumerate_ref(args)
            for c in constraints_for(enum, B3["quick"])[:ncons]:
                try:
                    outs = space.generate(args, c, max_paths=256)
                except Exception as e:
                    ctx.fail(comp, "importance", cls, f"exception:{type(e).__name__}", dict(program=node.name, args=args_key(args), constraint=gfi.asg_key(c), msg=str(e)[:300]))
                    continue
                for st, p in outs:
                    ctx.ev((node.name, args_key(args), "importance", gfi.asg_key(c), gfi.asg_key(st.asg)), nontrivial=True)
                    det = dict(program=node.name, args=args_key(args), constraint=gfi.asg_key(c), trace=gfi.asg_key(st.asg))
                    try:
                        ret, R = ref_run(node, args, st.asg)
                    except Missing as m:
                        ctx.fail(comp, "importance", cls, "choices:missing_address", det)
                        continue
                    if set(st.asg) - set(R.visited()):
                        ctx.fail(comp, "importance", cls, "choices:extra_address", det)
                    if not close(st.score, R.score()):
                        ctx.fail(comp, "importance", cls, "score", dict(det, impl=st.score, ref=R.score()))
                    w = float(np.asarray(p.result["weight"]))
                    wref = sum(t[1] for t in R.terms if t[0] in c)
                    if not close(w, wref):
                        ctx.fail(comp, "importance", cls, "weight", dict(det, impl=w, ref=wref))
                    from ..harness import cmp_ret

                    if not cmp_ret(st.retval, ret):
                        ctx.fail(comp, "importance", cls, "retval", dict(det, impl=repr(st.retval), ref=repr(ret)))
        # project and update histories
        combo.project_op(_C(ctx, comp, cls, wrap_all=True), node, "quick", seed, args_list=alph, static_args=static_args, max_states=8)
        if not static_args and not node.features() & {"idx_out_of_range"} and (tier == "thorough" or "overlap" in node.name or node.kind != "switch"):
            from ..bfs import Explorer

            Explorer(ctx, node, tier, seed, {"C05", "C01"}, kinds=("update",), bounds=dict(args=len(alph), depth=1 if tier == "quick" else 2)).run()

    return run


class _C:
    """ctx proxy rewriting component / input class"""

    def __init__(self, ctx, comp, cls, wrap_all=False):
        self.ctx, self.comp, self.cls, self.wrap_all = ctx, comp, cls, wrap_all

    def fail(self, component, op, input_class, symptom, detail=None):
        self.ctx.fail(self.comp, op, self.cls if not self.wrap_all else f"{self.cls}:{input_class}", symptom, detail)

    def __getattr__(self, name):
        return getattr(self.ctx, name)


def cases(tier, seed):
    for node, static_args in programs(tier):
        yield Case(node.name, _run(node, static_args, tier, seed), dict(program=node.name, concrete_python_args=static_args))
