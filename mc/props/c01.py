"""C01 - Every trace agrees with assess on its own choices and arguments: invariant evaluated in every state of the BFS over GFI histories (simulate leaves, update, regenerate and IndexRequest successors)."""

from __future__ import annotations

from . import _bfsprop
from ..bfs import BOUNDS as _B

PROPERTY = "C01"
LEVEL = "model_checking"
KINDS = ("update", "regenerate", "index")
RULE = (
    "explicit-state BFS per catalog program: initial states = every leaf of the simulate tree for each argument "
    "tuple; transitions = real edit calls (update with every single-address alternative value, pairs, empty "
    "constraint under every argument change/tagging; Regenerate over the selection alphabet; IndexRequest(i, Update/Regenerate) at every index of vector programs), every random outcome "
    "enumerated; distinct = (program, predecessor trace hash, request, successor assignment); non-trivial = reached "
    "by at least one edit"
)
ASSUMPTIONS = [
    "reference model mc/grammar.py (numpy float64) defines the expected successor",
    "library weight convention: update/regenerate weight = new score - old score",
    "continuous values from a standardized alphabet; programs bounded by the catalog (nesting depth <= 2)",
]
BOUNDS = _B
JOBS = {"quick": 14, "thorough": 16}


def cases(tier, seed):
    progs = _bfsprop.programs(tier, regen_only=(PROPERTY == "C07"))
    return _bfsprop.make_cases(PROPERTY, KINDS, tier, seed, progs)
