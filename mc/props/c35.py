"""C35 - Masked constraint values act as conditional constraints.

Enumerated: programs (static, vmap, repeat, scan, nested) x constraint sets (singles, pairs, full) x
flag patterns for the constrained values: every assignment of {concrete True, concrete False,
array(True), array(False)} to the constrained addresses (bounded), and for vector combinators a
vectorized Mask(values, flags) at C[:, addr] with ALL 2^n flag vectors, and a single flag applied to the UNION of several entries ((a | b).mask(flag), all four
flag forms).  Operations: importance (all
outcomes of the free sites enumerated) and update from every leaf of the simulate tree.  Oracle: a
value masked with a True flag behaves exactly like the unmasked constraint, with a False flag as if the
address were unconstrained: the trace agrees with the effective constraint {addresses with True flag},
the weight is the sum of their log-densities (importance) / the score difference (update), free
choices follow the prior, and the update's discard holds exactly the overwritten values."""

from __future__ import annotations

import itertools
import math
from collections import defaultdict

import jax
import jax.numpy as jnp
import numpy as np

from genjax import ChoiceMap, Mask, Update
from genjax import ChoiceMapBuilder as C

from ..common import Case, close
from .. import gfi, grammar, seam
from ..grammar import Flip, Repeat, Scan, Vmap, component_of, flipnorm, kern, kwdists, two, wrap, ref_run, Missing
from ..harness import Prog, args_key, base_key, choices_to_asg, cmp_ret, norm_ret
from ..space import Space, Spec
from ..bfs import _val_eq
from .c03 import constraints_for, BOUNDS as B3

PROPERTY = "C35"
LEVEL = "exploration"
RULE = (
    "programs x constraints x flag patterns (concrete/array True/False per constrained address; all 2^n flag vectors "
    "for vectorized masks) x {importance, update}; every outcome of the free sites enumerated; distinct = (program, "
    "args, constraint, flag pattern, op, outcome); non-trivial = at least one False flag or array flag"
)
ASSUMPTIONS = ["reference: effective constraint = addresses whose flag is True", "library weight convention for update: new score - old score"]
BOUNDS = {"quick": dict(constraints=4, patterns=6), "thorough": dict(constraints=12, patterns=16)}
JOBS = {"quick": 10, "thorough": 16}

FLAGS = {"T": True, "F": False, "aT": "arrT", "aF": "arrF"}


def _val(v):
    if isinstance(v, (bool, np.bool_)):
        return jnp.asarray(bool(v))
    if isinstance(v, (int, np.integer)):
        return jnp.asarray(int(v), dtype=jnp.int32)
    if isinstance(v, float):
        return jnp.asarray(v, dtype=jnp.float32)
    return jnp.asarray(v)


def masked_chm(c, pattern):
    chm = ChoiceMap.empty()
    for (p, v), fl in zip(c.items(), pattern):
        f = FLAGS[fl]
        flag = f if isinstance(f, bool) else jnp.asarray(f == "arrT")
        chm = chm | ChoiceMap.entry(Mask(_val(v), flag), *p)
    return chm


def effective(c, pattern):
    return {p: v for (p, v), fl in zip(c.items(), pattern) if fl in ("T", "aT")}


def programs(tier):
    f = Flip()
    P = [two(f, f), kwdists(), flipnorm(), Vmap(f, 2, 0), Vmap(two(f, f), 2, 0), Repeat(f, 2), Scan(kern(f), 2), grammar.nested_first(f)]
    if tier == "thorough":
        P += [Vmap(f, 3, 0), Scan(kern(two(f, f)), 2), Vmap(wrap(Vmap(f, 2, 0)), 2, 0), Vmap(wrap(Scan(kern(f), 2)), 2, 0), grammar.dimap_std(two(f, f))]
    return P


def check_importance(ctx, node, comp, space, args, chm, c_eff, lab, key_):
    try:
        outs = space.generate(args, {}, max_paths=512, chm=chm)
    except seam.TreeCapped:
        ctx.cap("importance tree capped")
        return
    except Exception as e:
        ctx.fail(comp, "importance", lab, f"exception:{type(e).__name__}", dict(program=node.name, args=args_key(args), case=key_, msg=str(e)[:300]))
        return
    mass, expect = defaultdict(float), {}
    for st, p in outs:
        ctx.ev((node.name, args_key(args), "importance", key_, gfi.asg_key(st.asg)), nontrivial="F" in lab or "a" in lab)
        det = dict(program=node.name, args=args_key(args), case=key_, trace=gfi.asg_key(st.asg))
        try:
            ret, R = ref_run(node, args, st.asg)
        except Missing:
            ctx.fail(comp, "importance", lab, "choices:missing_address", det)
            continue
        for p_, v in c_eff.items():
            if p_ in st.asg and not _val_eq(st.asg[p_], v):
                ctx.fail(comp, "importance", lab, "true_flag_constraint_not_installed", dict(det, path=repr(p_)))
        if not close(st.score, R.score()):
            ctx.fail(comp, "importance", lab, "score", dict(det, impl=st.score, ref=R.score()))
        w = float(np.asarray(p.result["weight"]))
        wref = sum(t[1] for t in R.terms if t[0] in c_eff)
        if not close(w, wref):
            ctx.fail(comp, "importance", lab, "weight", dict(det, impl=w, ref=wref))
        kk = gfi.asg_key(st.asg)
        mass[kk] += p.prob
        expect[kk] = math.exp(R.score() - wref)
    if node.discrete:
        bad = [(k, mass[k], expect[k]) for k in mass if abs(mass[k] - expect[k]) > 1e-5]
        if bad:
            ctx.fail(comp, "importance", lab, "free_choice_distribution", dict(program=node.name, args=args_key(args), case=key_, first=bad[:3]))


def check_update(ctx, node, comp, space, st, chm, c_eff, lab, key_):
    spec = Spec("update", constraint=c_eff, tags="nochange", label=lab)
    try:
        results, new_args = space.apply(st, spec, request=Update(chm))
    except seam.TreeCapped:
        return
    except Exception as e:
        ctx.fail(comp, "update", lab, f"exception:{type(e).__name__}", dict(program=node.name, history=st.history, case=key_, msg=str(e)[:300]))
        return
    _, R0 = ref_run(node, st.args, st.asg)
    for res, p in results:
        ns = space.successor(st, spec, res, new_args)
        ctx.ev((node.name, st.key(), "update", key_, gfi.asg_key(ns.asg)), nontrivial="F" in lab or "a" in lab)
        det = dict(program=node.name, history=st.history, case=key_, new=gfi.asg_key(ns.asg))
        try:
            ret, R = ref_run(node, ns.args, ns.asg)
        except Missing:
            ctx.fail(comp, "update", lab, "choices:missing_address", det)
            continue
        for p_, v in ns.asg.items():
            if p_ in c_eff:
                if not _val_eq(v, c_eff[p_]):
                    ctx.fail(comp, "update", lab, "true_flag_constraint_not_installed", dict(det, path=repr(p_)))
            elif p_ in st.asg and not _val_eq(v, st.asg[p_]):
                ctx.fail(comp, "update", lab, "false_flag_or_unconstrained_changed", dict(det, path=repr(p_)))
        if not close(ns.score, R.score()):
            ctx.fail(comp, "update", lab, "score", dict(det, impl=ns.score, ref=R.score()))
        w = float(np.asarray(res["weight"]))
        if set(ns.asg) == set(st.asg) and not close(w, R.score() - R0.score()):
            ctx.fail(comp, "update", lab, "weight", dict(det, impl=w, ref=R.score() - R0.score()))
        if "discard" in res and set(ns.asg) == set(st.asg):
            disc = choices_to_asg(space.paths_all, res["discard"])
            want = {p_: st.asg[p_] for p_ in c_eff if p_ in st.asg}
            if set(disc) != set(want) or any(not _val_eq(disc[p_], want[p_]) for p_ in want):
                ctx.fail(comp, "update", lab, "discard", dict(det, impl={repr(k): v for k, v in disc.items()}, ref={repr(k): v for k, v in want.items()}))


def _run(node, tier, seed):
    def run(ctx):
        b = BOUNDS[tier]
        comp = component_of(node)
        prog = Prog(node, n_cont=2)
        key = base_key(seed)
        args = grammar.rotate(node.arg_alphabet(), seed)[0]
        space = Space(prog, key, [args])
        enum = prog.enumerate_ref(args)
        cons = [c for c in constraints_for(enum, B3["quick"]) if c][: b["constraints"]]
        full = dict(enum[0][0])
        if full and full not in cons:
            cons.append(full)
        inits = [st for st, _ in space.initial_states()][:3]
        for c in cons:
            pats = list(itertools.product(FLAGS, repeat=len(c)))
            if len(pats) > b["patterns"]:
                # all single-flag patterns first, then mixed ones
                uni = [tuple([f] * len(c)) for f in FLAGS]
                mixed = [p for p in pats if len(set(p)) > 1]
                pats = uni + mixed[: b["patterns"] - len(uni)]
            for pat in pats:
                lab = "flags:" + ("uniform_" + pat[0] if len(set(pat)) == 1 else "mixed")
                key_ = gfi.asg_key(c) + "|" + ",".join(pat)
                try:
                    chm = masked_chm(c, pat)
                except Exception as e:
                    ctx.fail(comp, "build", lab, f"exception:{type(e).__name__}", dict(program=node.name, case=key_, msg=str(e)[:300]))
                    continue
                ce = effective(c, pat)
                check_importance(ctx, node, comp, space, args, chm, ce, lab, key_)
                for st in inits[: 2 if tier == "quick" else 3]:
                    # constrain to alternative values so that the update really overwrites
                    check_update(ctx, node, comp, space, st, chm, ce, lab, key_)
        # a mask applied AFTER the union of several entries: (entry | entry | ...).mask(flag).  Entries at
        # different indices of a vector combinator do not merge statically, so the union is a real Or node
        # and the flag has to reach both of its operands (seeded change C35-c35c-sub3)
        from ..harness import make_chm

        for c in cons:
            if len(c) < 2:
                continue
            for fl, f in FLAGS.items():
                flag = f if isinstance(f, bool) else jnp.asarray(f == "arrT")
                lab = "whole_map_flag:" + fl
                key_ = gfi.asg_key(c) + "|whole:" + fl
                try:
                    chm = make_chm(c).mask(flag)
                except Exception as e:
                    ctx.fail(comp, "build", lab, f"exception:{type(e).__name__}", dict(program=node.name, case=key_, msg=str(e)[:300]))
                    continue
                ce = dict(c) if fl in ("T", "aT") else {}
                check_importance(ctx, node, comp, space, args, chm, ce, lab, key_)
                for st in inits[:2]:
                    check_update(ctx, node, comp, space, st, chm, ce, lab, key_)
        # vectorized masks under vector combinators: all 2^n flag vectors
        if node.kind in ("vmap", "repeat", "scan") and getattr(node, "n", 0) > 0:
            n = node.n
            asg = enum[-1][0]
            leafs = sorted({p[1:] for p in asg if p and isinstance(p[0], int) and not any(isinstance(c_, int) for c_ in p[1:])}, key=repr)
            for rest in leafs[:2]:
                vals = [asg.get((i,) + rest) for i in range(n)]
                if any(v is None for v in vals):
                    continue
                vec = jnp.asarray(np.array(vals))
                for flags in itertools.product([True, False], repeat=n):
                    fv = jnp.asarray(np.array(flags))
                    chm = C[(slice(None),) + rest].set(Mask(vec, fv))
                    ce = {(i,) + rest: vals[i] for i in range(n) if flags[i]}
                    lab = "vector_flags:" + ("all_T" if all(flags) else ("all_F" if not any(flags) else "mixed"))
                    key_ = repr(rest) + "|" + "".join("T" if f_ else "F" for f_ in flags)
                    check_importance(ctx, node, comp, space, args, chm, ce, lab, key_)
                    for st in inits[:2]:
                        check_update(ctx, node, comp, space, st, chm, ce, lab, key_)
        ctx.sample(dict(program=node.name, constraints=len(cons)))

    return run


def cases(tier, seed):
    for node in programs(tier):
        yield Case(node.name, _run(node, tier, seed), dict(program=node.name))
