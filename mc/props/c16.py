"""C16 - Masked iteration steps with a false mask are inert.

Enumerated: masked_iterate / masked_iterate_final over step kernels that CHANGE the iterated value
(x*0.5 + s + 0.25 with s a random choice whose parameter depends on x; a two-choice step; a
continuous step) x ALL mask sequences of length <= 3 (quick) / <= 4 (thorough) x start values.
Operations: complete simulate tree, assess over all assignments, importance over partial constraints,
update histories (which also change the mask sequence).  Oracle: the reference loop - a False step
adds nothing to the score, has no (valid) choices, and in masked_iterate_final leaves the value
unchanged; True steps behave as ordinary iterate steps (from the value left by the previous True step)."""

from __future__ import annotations

import itertools

import numpy as np

from ..common import Case
from .. import grammar
from ..grammar import Derived, Flip, NormalD, stepf, two

PROPERTY = "C16"
LEVEL = "exploration"
RULE = (
    "masked_iterate(_final) programs x all mask sequences up to the length bound x start values x ops (simulate tree, "
    "assess, importance, update); distinct = (program, mask sequence, op, assignment); non-trivial = mask sequence "
    "containing at least one False followed or preceded by a True"
)
ASSUMPTIONS = [
    "reference = documented loop: a False step leaves the iterated value unchanged and contributes no term",
    "masked_iterate returns the list of iterated values (a False step repeats the previous value)",
]
BOUNDS = {"quick": dict(max_len=3), "thorough": dict(max_len=4)}
JOBS = {"quick": 12, "thorough": 16}


class MaskedIter(Derived):
    def __init__(self, which, f, n):
        super().__init__(which, f, n)

    def arg_alphabet(self):
        out = []
        for j, pat in enumerate(itertools.product([True, False], repeat=self.n)):
            out.append(((0.5, 1.0)[j % 2], np.array(pat, dtype=bool)))
        return out


def programs(tier):
    f = Flip()
    out = []
    L = BOUNDS[tier]["max_len"]
    for which in ("masked_iterate", "masked_iterate_final"):
        for n in range(1, L + 1):
            out.append(MaskedIter(which, stepf(f), n))
        out.append(MaskedIter(which, stepf(two(f, f)), 2))
        out.append(MaskedIter(which, stepf(NormalD()), 2))
    return out


def _run(node, tier, seed):
    def run(ctx):
        from ..bfs import Explorer
        from .. import gfi, seam
        from ..harness import Prog, args_key, base_key, norm_ret
        from ..space import Space
        from ..grammar import component_of
        from .c13 import _C
        from . import c02

        comp = component_of(node)
        prog = Prog(node, n_cont=2)
        key = base_key(seed)
        alph = node.arg_alphabet()
        for args in alph:
            pat = tuple(bool(b) for b in args[1])
            cls = "mask_" + "".join("T" if b else "F" for b in pat)
            nontriv = (True in pat) and (False in pat)
            tree = gfi.SimTree(prog, args, key, max_paths=1024)
            for p in tree.paths:
                asg = tree.path_asg(p)
                ctx.ev((node.name, args_key(args), "simulate", gfi.asg_key(asg)), nontrivial=nontriv)
                gfi.check_trace_against_ref(_C(ctx, comp, "simulate"), node, args, asg, p.result["score"], norm_ret(p.result["retval"]), cls, "simulate")
            if node.discrete:
                gfi.distribution_check(_C(ctx, comp, "simulate"), node, args, tree, "simulate")
            ctx.sample(dict(program=node.name, mask=list(pat), paths=len(tree.paths)))
        space = Space(prog, key, alph)
        pool = {}
        for args in alph:
            for a2, _, _ in prog.enumerate_ref(args):
                for p_, v_ in a2.items():
                    pool.setdefault(p_, v_)
        for args in alph:
            pat = tuple(bool(b) for b in args[1])
            for asg, ret, R in prog.enumerate_ref(args)[:16]:
                c02.assess_one(ctx, space, node, comp, args, asg, ret, R, pool, set(), nontrivial=(True in pat) and (False in pat))
        if node.n <= 2:
            Explorer(ctx, node, tier, seed, {"C05", "C01"}, kinds=("update",), all_arg_changes=True, weight_always=False, alphabet=alph, bounds=dict(depth=1 if tier == "quick" else 2, init_cap=3)).run()

    return run


def cases(tier, seed):
    for node in programs(tier):
        yield Case(node.name, _run(node, tier, seed), dict(program=node.name))
