"""C09 - Incremental interpreter computes the same values with sound change tags.

Bounded exhaustive exploration: every function of the E5 grammar (mc/fgrammar.py) x ALL 2^n taggings of
its n input leaves x ALL 2^n input tuples of the per-leaf 2-value alphabet, through the real
`incremental(f)(None, primals, tangents)`.

Oracle (plain Python / numpy, independent of the interpreter):
  (1) primal outputs == ordinary evaluation f(*primals)   (pytree structure, dtype, shape, value)
  (2) every output leaf is a Diff whose tangent is NoChange or UnknownChange
  (3) soundness of NoChange: the table T[input tuple] of ordinary evaluations is computed once; for each
      output leaf tagged NoChange under tagging t at input a, T[a'][leaf] must be identical to T[a][leaf]
      for every a' that agrees with a on the NoChange-tagged leaves (i.e. every alternative value of the
      UnknownChange-tagged inputs)
  (4) all inputs NoChange: covered by (3) (nothing may change); the precision of the tags is only counted.
"""

from __future__ import annotations

import itertools

from ..common import Case, close
from .. import fgrammar as G

PROPERTY = "C09"
LEVEL = "exploration"
RULE = (
    "one case per E5 function (typed term grammar over arithmetic, dynamic indexing, where/select, cond, switch, "
    "scan, fori/while, nested jit, custom_jvp/vjp, sort/top_k, literals, closed constants; outputs that are "
    "directly inputs/literals/constants; tuple/dict outputs; unused inputs; pytree arguments); inside a case every "
    "tagging in {NoChange,UnknownChange}^n x every input tuple in the 2-value-per-leaf alphabet is run through the "
    "real incremental interpreter; distinct = (function, tagging, input); non-trivial = at least one leaf tagged "
    "UnknownChange or an output that is an input/literal/constant"
)
ASSUMPTIONS = [
    "ordinary eager evaluation f(*primals) is the reference for primal values (float tolerance 1e-4 relative, exact for int/bool)",
    "NoChange soundness is decided over the 2-value alphabet of every input leaf, not over all reals",
    "only soundness of tags is demanded, not precision (an unchanged output may be tagged UnknownChange)",
    "functions are limited to the E5 grammar (depth <= 2 quick / <= 3 thorough, <= 3 input leaves)",
]
BOUNDS = {
    "quick": {"grammar_depth": 2, "max_input_leaves": 3, "taggings": "all 2^n", "inputs": "all 2^n (2 values per leaf)"},
    "thorough": {"grammar_depth": 3, "max_input_leaves": 3, "taggings": "all 2^n", "inputs": "all 2^n (2 values per leaf)"},
}
JOBS = {"quick": 6, "thorough": 16}

COMPONENT = "IncrementalInterpreter"


def _np_leaf(v):
    import numpy as np

    return np.asarray(v)


def _same_exact(a, b) -> bool:
    import numpy as np

    a, b = np.asarray(a), np.asarray(b)
    if a.shape != b.shape or a.dtype != b.dtype:
        return False
    if a.dtype.kind == "f":
        return bool(np.all((a == b) | (np.isnan(a) & np.isnan(b))))
    return bool(np.all(a == b))


def _same_value(a, b) -> str | None:
    """None if equal, else which aspect differs."""
    import numpy as np

    a, b = np.asarray(a), np.asarray(b)
    if a.shape != b.shape:
        return "shape"
    if a.dtype != b.dtype:
        return "dtype"
    if a.dtype.kind == "f":
        return None if close(a, b) else "value"
    return None if bool(np.all(a == b)) else "value"


def _out_class(spec, k: int) -> str:
    """Coarse, stable class of the k-th output leaf (for the signature)."""
    if isinstance(spec, G.FnSpec):
        terms = spec.terms
        # an output term may be a vector etc. but is always one leaf
        if k < len(terms):
            t = terms[k]
            if t[0] == "arg":
                return "out_is_input"
            if t[0] == "lit":
                return "out_is_literal"
            if t[0] == "const":
                return "out_is_const"
            return "computed:" + t[0]
    return "pytree_fn"


def run_function(ctx, spec, seed):
    import jax.tree_util as jtu
    from genjax._src.core.compiler.interpreters.incremental import (
        Diff,
        NoChange,
        UnknownChange,
        _NoChange,
        _UnknownChange,
        incremental,
    )

    f = spec.build()
    in_td, leaf_alpha = G.leaf_inputs(spec, seed)
    n = len(leaf_alpha)
    feats = spec.features
    corner = bool(feats & {"out_is_input", "out_is_literal", "out_is_const"})

    # table of ordinary evaluations
    table = {}
    out_td = None
    for bits in itertools.product((0, 1), repeat=n):
        args = jtu.tree_unflatten(in_td, [leaf_alpha[j][b] for j, b in enumerate(bits)])
        out = f(*args)
        leaves, td = jtu.tree_flatten(out)
        if out_td is None:
            out_td = td
        table[bits] = (args, [_np_leaf(v) for v in leaves])
    m = len(next(iter(table.values()))[1])
    ctx.sample({"fn": spec.id, "features": sorted(feats), "n_input_leaves": n, "n_output_leaves": m})
    if corner:
        ctx.note("functions_with_direct_outputs")
    ctx.note("functions")

    inc = incremental(f)
    for tags in itertools.product((0, 1), repeat=n):  # 1 = UnknownChange
        tangents = jtu.tree_unflatten(in_td, [UnknownChange if t else NoChange for t in tags])
        tagname = "".join("U" if t else "N" for t in tags)
        for bits, (args, ref_leaves) in table.items():
            nontrivial = any(tags) or corner
            ctx.ev((spec.id, tagname, bits), nontrivial=nontrivial)
            try:
                out = inc(None, args, tangents)
            except Exception as e:  # the interpreter must run every traceable function
                ctx.fail(
                    COMPONENT,
                    "incremental",
                    "features:" + (",".join(sorted(feats & {"out_is_input", "out_is_literal", "out_is_const", "pytree_arg"})) or "computed"),
                    f"exception:{type(e).__name__}",
                    {"fn": spec.id, "tagging": tagname, "input": bits, "error": str(e)[:400]},
                )
                continue
            dleaves = jtu.tree_leaves(out, is_leaf=Diff.is_diff)
            # (2) structure: every leaf a Diff with a proper tangent
            bad = [k for k, d in enumerate(dleaves) if not isinstance(d, Diff)]
            if bad:
                ctx.fail(
                    COMPONENT,
                    "incremental",
                    _out_class(spec, bad[0]) if len(dleaves) == m else "output",
                    "output_not_diff",
                    {"fn": spec.id, "tagging": tagname, "input": bits, "leaf": bad[0], "got": repr(dleaves[bad[0]])[:200]},
                )
                continue
            td_got = jtu.tree_structure(jtu.tree_map(lambda d: 0, out, is_leaf=Diff.is_diff))
            if td_got != jtu.tree_structure(jtu.tree_unflatten(out_td, [0] * m)) or len(dleaves) != m:
                ctx.fail(
                    COMPONENT,
                    "incremental",
                    "output",
                    "structure_mismatch",
                    {"fn": spec.id, "tagging": tagname, "input": bits, "expected": str(out_td), "got": str(td_got)},
                )
                continue
            for k, d in enumerate(dleaves):
                tg = d.tangent
                if not isinstance(tg, (_NoChange, _UnknownChange)):
                    ctx.fail(
                        COMPONENT, "incremental", _out_class(spec, k), "tangent_not_change_tangent",
                        {"fn": spec.id, "tagging": tagname, "input": bits, "leaf": k, "got": repr(tg)[:200]},
                    )
                    continue
                # (1) primal value
                if isinstance(d.primal, Diff):
                    ctx.fail(
                        COMPONENT, "incremental", _out_class(spec, k), "nested_diff",
                        {"fn": spec.id, "tagging": tagname, "input": bits, "leaf": k},
                    )
                    continue
                why = _same_value(d.primal, ref_leaves[k])
                if why is not None:
                    ctx.fail(
                        COMPONENT, "incremental", _out_class(spec, k), "primal_" + why,
                        {"fn": spec.id, "tagging": tagname, "input": bits, "leaf": k,
                         "expected": ref_leaves[k], "actual": _np_leaf(d.primal),
                         "expected_dtype": str(ref_leaves[k].dtype), "actual_dtype": str(_np_leaf(d.primal).dtype)},
                    )
                # (3) soundness of NoChange
                if isinstance(tg, _NoChange):
                    ctx.note("outputs_tagged_nochange")
                    if any(tags):
                        ctx.note("nochange_outputs_with_changed_inputs")
                    for alt in table:
                        if any((not tags[j]) and alt[j] != bits[j] for j in range(n)):
                            continue  # alt differs on a NoChange input
                        if alt == bits:
                            continue
                        if not _same_exact(table[alt][1][k], ref_leaves[k]):
                            ctx.fail(
                                COMPONENT, "incremental", _out_class(spec, k),
                                "nochange_output_depends_on_changed_input",
                                {"fn": spec.id, "tagging": tagname, "input": bits, "alternative_input": alt, "leaf": k,
                                 "value": ref_leaves[k], "alternative_value": table[alt][1][k]},
                            )
                            break
                else:
                    ctx.note("outputs_tagged_unknown")
                    if not any(tags):
                        ctx.note("imprecise_unknown_with_all_inputs_nochange")
            ctx.outcome((spec.id, tagname, [type(d.tangent).__name__ for d in dleaves]))


def cases(tier: str, seed: int):
    for spec in G.functions(tier):
        yield Case(
            id=spec.id,
            run=(lambda ctx, spec=spec: run_function(ctx, spec, seed)),
            describe=spec.describe(),
        )
