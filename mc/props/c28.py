"""C28 - HMC proposals follow leapfrog dynamics and return the MH log ratio.

Enumerated: differentiable models (one normal; two linked normals; a non-linear link y ~ N(x*x, s);
a scan of linked normals; a flip-then-normal mixture) x selections (each address, unions,
`Selection.all()`, a selection that also contains a discrete address) x step counts L x step sizes
eps x start values from a fixed alphabet x ALL momentum draws: the seam turns every
`tfd.Normal(0, 1).sample` of `sample_momenta` into a choice point with outcomes z in seam.Z_ALPHABET,
one per selected scalar coordinate, and the complete tree (3**dim paths) is explored.

Oracle: an independent numpy float64 leapfrog integrator with hand-written analytic gradients of the
model's log density (the gradients are themselves verified against central differences of the
reference log density when the module is imported):
    repeat L times:  p += eps/2 * grad(q);  q += eps * p;  p += eps/2 * grad(q)     (gradient at the CURRENT q)
For every momentum assignment this yields (q_end, p_end).  Checked on every library path:
 * the selected values equal q_end of exactly one momentum assignment (and the paths are in bijection
   with the assignments, each with probability 3**-dim),
 * unselected addresses are bit-identical to the start trace, the new trace's score == log p(q_end),
 * the returned weight == H(start) - H(end),  H(q, p) = -log p(q) + |p|^2 / 2  (the sign convention of
   the library's docstring: "a weight which is equal to the alpha accept-reject ratio").
SafeHMC(selection, eps, L) (HMC plus a static no-change assertion on the return value) is run on the
models/selections whose return value is not moved: on every momentum path it must give bit-identical
values, score and alpha to HMC(selection, eps, L) (differential, all L), and for L = 1 it is also
compared with the leapfrog reference.  Reported with component "SafeHMC".
The invariance clause ("accept/reject on alpha leaves the target invariant") is a mathematical
consequence of these facts (volume preservation and reversibility of leapfrog) and is NOT explored.
"""

from __future__ import annotations

import itertools
import math

import numpy as np

from ..common import Case, close

PROPERTY = "C28"
LEVEL = "exploration"
RULE = (
    "cases = (model, selection, L); each case = step sizes x start values x the complete tree of momentum draws "
    "(3 standardized values per selected scalar coordinate); distinct = (model, selection, L, eps, start, momentum "
    "assignment); non-trivial = every path (the momentum alphabet has no zero, so every selected coordinate moves); "
    "collision inputs: L >= 2 (second step's first half-kick needs the refreshed gradient), selections that leave a "
    "dependent address fixed, vector-valued choices under scan, a selected discrete address"
)
ASSUMPTIONS = [
    "momenta are explored on the standardized alphabet z in {0.4, -1.3, 2.1} per coordinate, start values on a fixed "
    "alphabet; step sizes eps in {0.1} (quick) / {0.05, 0.2} (thorough); nothing outside these values is covered",
    "the invariance clause is a consequence of the checked leapfrog/alpha facts and is not explored",
    "requests are executed under jax.jit (as in the library's own tests) with array-valued traces; thorough adds one "
    "eager execution per case",
]
BOUNDS = {
    "quick": dict(L=[1, 2], eps=[0.1], starts=2, scan_length=2, models=["norm1", "lin2", "quad2", "scan", "mixb"],
                  momentum_alphabet=3, max_dim=4, safe_hmc="lin2/sel=x and quad2/sel=x: SafeHMC == HMC per momentum path (all L), leapfrog for L=1"),
    "thorough": dict(L=[1, 2, 3], eps=[0.05, 0.2], starts=3, scan_length=3, models=["norm1", "lin2", "quad2", "scan", "mixb"],
                     momentum_alphabet=3, max_dim=6, safe_hmc="lin2/sel=x and quad2/sel=x: SafeHMC == HMC per momentum path (all L), leapfrog for L=1"),
}
JOBS = {"quick": 4, "thorough": 12}

LOG2PI = math.log(2 * math.pi)


def _ln(v, mu, sd):
    v, mu = np.asarray(v, dtype=np.float64), np.asarray(mu, dtype=np.float64)
    return float(np.sum(-0.5 * ((v - mu) / sd) ** 2 - math.log(sd) - 0.5 * LOG2PI))


# --------------------------------------------------------------------------------------------
# reference models: logp(a) and grad(a) -> dict addr -> d logp / d a[addr]   (a: dict addr -> float64 array)


class RefModel:
    cont: tuple = ()  # continuous addresses
    disc: tuple = ()

    def logp(self, a):
        raise NotImplementedError

    def grad(self, a):
        raise NotImplementedError


class Norm1(RefModel):
    cont = ("x",)

    def logp(self, a):
        return _ln(a["x"], 0.3, 1.5)

    def grad(self, a):
        return dict(x=-(a["x"] - 0.3) / 1.5**2)


class Lin2(RefModel):
    cont = ("x", "y")

    def logp(self, a):
        return _ln(a["x"], 0.0, 1.0) + _ln(a["y"], a["x"], 0.4)

    def grad(self, a):
        r = (a["y"] - a["x"]) / 0.4**2
        return dict(x=-a["x"] + r, y=-r)


class Quad2(RefModel):
    cont = ("x", "y")

    def logp(self, a):
        return _ln(a["x"], 0.0, 1.0) + _ln(a["y"], a["x"] * a["x"], 0.5)

    def grad(self, a):
        r = (a["y"] - a["x"] ** 2) / 0.5**2
        return dict(x=-a["x"] + 2 * a["x"] * r, y=-r)


class ScanN(RefModel):
    cont = ("x", "y")

    def __init__(self, n, x0):
        self.n, self.x0 = n, x0

    def logp(self, a):
        x, y = np.asarray(a["x"], dtype=np.float64), np.asarray(a["y"], dtype=np.float64)
        prev = np.concatenate([[self.x0], x[:-1]])
        return _ln(x, prev, 1.0) + _ln(y, x, 0.5)

    def grad(self, a):
        x, y = np.asarray(a["x"], dtype=np.float64), np.asarray(a["y"], dtype=np.float64)
        prev = np.concatenate([[self.x0], x[:-1]])
        gx = -(x - prev) + (y - x) / 0.25
        gx[:-1] += x[1:] - x[:-1]
        return dict(x=gx, y=-(y - x) / 0.25)


class MixB(RefModel):
    cont = ("x",)
    disc = ("b",)

    def logp(self, a):
        b = bool(a["b"])
        return math.log(0.4 if b else 0.6) + _ln(a["x"], 1.0 if b else -1.0, 0.7)

    def grad(self, a):
        return dict(x=-(a["x"] - (1.0 if bool(a["b"]) else -1.0)) / 0.7**2)


def _selftest_gradients():
    pts = {
        "norm1": (Norm1(), dict(x=np.float64(0.7))),
        "lin2": (Lin2(), dict(x=np.float64(0.3), y=np.float64(-0.8))),
        "quad2": (Quad2(), dict(x=np.float64(-0.6), y=np.float64(0.9))),
        "scan": (ScanN(3, 0.4), dict(x=np.array([0.3, -0.5, 1.1]), y=np.array([1.0, 0.2, -0.4]))),
        "mixb": (MixB(), dict(b=True, x=np.float64(0.2))),
    }
    h = 1e-6
    for name, (m, a) in pts.items():
        g = m.grad(a)
        for addr in m.cont:
            v = np.atleast_1d(np.asarray(a[addr], dtype=np.float64))
            ga = np.atleast_1d(g[addr])
            for i in range(v.size):
                up, dn = v.copy(), v.copy()
                up[i] += h
                dn[i] -= h
                shp = np.shape(a[addr])
                fd = (m.logp({**a, addr: up.reshape(shp)}) - m.logp({**a, addr: dn.reshape(shp)})) / (2 * h)
                if abs(fd - ga[i]) > 1e-5 * max(1.0, abs(fd)):
                    raise AssertionError(f"reference gradient of {name}.{addr}[{i}] is wrong: {ga[i]} vs {fd}")


_selftest_gradients()


def ref_leapfrog(model: RefModel, a0: dict, sel: tuple, p0: dict, eps: float, L: int):
    """only addresses in `sel` move; every half-step uses the gradient at the current position"""
    a = {k: (np.array(v, dtype=np.float64) if k in model.cont else v) for k, v in a0.items()}
    p = {k: np.array(v, dtype=np.float64) for k, v in p0.items()}
    for _ in range(L):
        g = model.grad(a)
        for k in sel:
            p[k] = p[k] + 0.5 * eps * g[k]
        for k in sel:
            a[k] = a[k] + eps * p[k]
        g = model.grad(a)
        for k in sel:
            p[k] = p[k] + 0.5 * eps * g[k]
    return a, p


def kinetic(p):
    return 0.5 * sum(float(np.sum(np.square(v))) for v in p.values())


# --------------------------------------------------------------------------------------------
# catalogue


def _starts(name, n, scan_n):
    if name == "norm1":
        return [dict(x=v) for v in (0.9, -1.4, 0.1)[:n]]
    if name == "lin2":
        return [dict(x=x, y=y) for x, y in ((0.3, 1.0), (-1.2, -0.4), (0.8, 0.2))[:n]]
    if name == "quad2":
        return [dict(x=x, y=y) for x, y in ((0.6, 0.9), (-1.1, 0.5), (0.2, -0.7))[:n]]
    if name == "scan":
        xs = ((0.3, -0.5, 1.1), (-0.8, 0.6, 0.1), (1.2, 0.9, -0.3))
        ys = ((1.0, 0.2, -0.4), (-0.3, 0.7, 0.5), (0.4, -1.1, 0.8))
        return [dict(x=list(xs[i][:scan_n]), y=list(ys[i][:scan_n])) for i in range(n)]
    if name == "mixb":
        return [dict(b=b, x=x) for b, x in ((True, 0.2), (False, 0.6), (True, -1.3))[:n]]
    raise KeyError(name)


# (model, selection name, selected addresses); "all" = Selection.all()
SELECTIONS = [
    ("norm1", "x", ("x",)),
    ("norm1", "all", ("x",)),
    ("lin2", "x", ("x",)),
    ("lin2", "y", ("y",)),
    ("lin2", "x|y", ("x", "y")),
    ("lin2", "all", ("x", "y")),
    ("quad2", "x", ("x",)),
    ("quad2", "all", ("x", "y")),
    ("scan", "x", ("x",)),
    ("scan", "y", ("y",)),
    ("scan", "all", ("x", "y")),
    ("mixb", "x", ("x",)),
    ("mixb", "all", ("x", "b")),  # contains the discrete address b: only x may move
]


# SafeHMC = HMC + a static assertion that the return value's change tag is NoChange: lin2 / quad2 return y
SAFE_SELECTIONS = [("lin2", "x", ("x",)), ("quad2", "x", ("x",))]


def build(name, scan_n):
    """real genjax model + argument tuple + reference model"""
    import jax.numpy as jnp
    from genjax import flip, gen, normal

    if name == "norm1":
        @gen
        def m():
            return normal(0.3, 1.5) @ "x"

        return m, (), Norm1()
    if name == "lin2":
        @gen
        def m():
            x = normal(0.0, 1.0) @ "x"
            return normal(x, 0.4) @ "y"

        return m, (), Lin2()
    if name == "quad2":
        @gen
        def m():
            x = normal(0.0, 1.0) @ "x"
            return normal(x * x, 0.5) @ "y"

        return m, (), Quad2()
    if name == "scan":
        @gen
        def kernel(z, _):
            x = normal(z, 1.0) @ "x"
            _ = normal(x, 0.5) @ "y"
            return x, None

        return kernel.scan(n=scan_n), (jnp.array(0.4, dtype=jnp.float32), None), ScanN(scan_n, 0.4)
    if name == "mixb":
        @gen
        def m():
            b = flip(0.4) @ "b"
            return normal(jnp.where(b, 1.0, -1.0), 0.7) @ "x"

        return m, (), MixB()
    raise KeyError(name)


def build_selection(selname):
    from genjax import Selection

    if selname == "all":
        return Selection.all()
    sel = None
    for a in selname.split("|"):
        s = Selection.at[a]
        sel = s if sel is None else (sel | s)
    return sel


# --------------------------------------------------------------------------------------------


def _run(mname, selname, seladdrs, L, tier, seed, safe=False):
    def run(ctx):
        import jax
        import jax.numpy as jnp
        from genjax import ChoiceMap, Diff
        from genjax.inference.requests import HMC, SafeHMC

        from .. import seam
        from ..harness import base_key

        b = BOUNDS[tier]
        scan_n = b["scan_length"]
        key = base_key(seed)
        model, args, ref = build(mname, scan_n)
        selection = build_selection(selname)
        addrs = ref.cont + ref.disc
        moving = tuple(a for a in seladdrs if a in ref.cont)
        has_disc = any(a in ref.disc for a in seladdrs)
        klass = "selection_contains_discrete" if has_disc else ("L=1" if L == 1 else "L>=2")
        comp, op = ("SafeHMC" if safe else "HMC.edit"), "edit"
        zs = seam.Z_ALPHABET
        is_scan = mname == "scan"

        def read(chm, a):
            return chm[:, a] if is_scan else chm[a]

        def edit(k, tr, req):
            new_tr, w, _rd, _bwd = req.edit(k, tr, Diff.no_change(args))
            chm = new_tr.get_choices()
            return dict(w=w, score=new_tr.get_score(), **{f"v_{a}": read(chm, a) for a in addrs})

        jedit = jax.jit(edit)

        for si, start in enumerate(_starts(mname, b["starts"], scan_n)):
            chm = ChoiceMap.empty()
            for a in addrs:
                v = jnp.array(start[a]) if a in ref.disc else jnp.array(start[a], dtype=jnp.float32)
                chm = chm | (ChoiceMap.empty().at[a].set(v))
            tr, _ = model.importance(key, chm, args)
            start_real = {a: np.asarray(read(tr.get_choices(), a)) for a in addrs}
            a0 = {a: (np.asarray(start_real[a], dtype=np.float64) if a in ref.cont else bool(start_real[a])) for a in addrs}
            lp0 = ref.logp(a0)
            dims = [(a, i) for a in moving for i in range(max(1, int(np.size(a0[a]))))]
            for eps in b["eps"]:
                req_plain = HMC(selection, jnp.array(eps, dtype=jnp.float32), L)
                req = SafeHMC(selection, jnp.array(eps, dtype=jnp.float32), L) if safe else req_plain
                detail0 = dict(model=mname, selection=selname, L=L, eps=eps, start=start, request="SafeHMC" if safe else "HMC")
                # reference outcomes for every momentum assignment
                expected = []
                for zz in itertools.product(zs, repeat=len(dims)):
                    p0 = {a: np.zeros(np.shape(a0[a])) for a in moving}
                    for (a, i), z in zip(dims, zz):
                        if np.ndim(p0[a]) == 0:
                            p0[a] = np.float64(z)
                        else:
                            p0[a][i] = z
                    a1, p1 = ref_leapfrog(ref, a0, moving, p0, eps, L)
                    lp1 = ref.logp(a1)
                    alpha = (-lp0 + kinetic(p0)) - (-lp1 + kinetic(p1))
                    expected.append(dict(z=zz, end=a1, logp=lp1, alpha=alpha))
                ends = np.stack([np.concatenate([np.ravel(e["end"][a]) for a in moving]) for e in expected])
                modes = [("jit", jedit)]
                if tier == "thorough" and si == 0 and eps == b["eps"][0] and not safe:
                    modes.append(("eager", edit))
                for mode, fn in modes:
                    detail = dict(**detail0, mode=mode)
                    try:
                        with seam.seam(n_cont=len(zs)):
                            if mode == "eager":  # one path only: eager HMC recompiles its scan on every call
                                res = seam.run_with(lambda: fn(key, tr, req), {})[0]
                                paths = [seam.Path({}, 1.0 / len(expected), res, [], 1, False)]
                            else:
                                paths, _stats = seam.explore(lambda: fn(key, tr, req), max_paths=1024)
                    except seam.TreeCapped as e:
                        ctx.cap(f"{mname}/{selname}/L{L}: {e}")
                        continue
                    except Exception as e:
                        ctx.ev((mname, selname, L, eps, si, mode, "raised"), nontrivial=True)
                        ctx.fail(comp, op, klass, f"exception:{type(e).__name__}", dict(**detail, error=str(e)[:300]))
                        continue
                    ctx.note("trees")
                    ctx.note("paths", len(paths))
                    if mode == "jit" and abs(seam.total_prob(paths) - 1.0) > 1e-6:
                        ctx.fail(comp, op, klass, "sum_prob", dict(**detail, total=seam.total_prob(paths)))
                    if safe:
                        # differential: SafeHMC(sel, eps, L) == HMC(sel, eps, L) on every momentum path (same key, so the
                        # same choice points); independent of the leapfrog reference, hence of the known L >= 2 finding
                        with seam.seam(n_cont=len(zs)):
                            plain, _ = seam.explore(lambda: jedit(key, tr, req_plain), max_paths=1024)
                        by_table = {tuple(sorted(q.table.items())): q.result for q in plain}
                        for p in paths:
                            ctx.ev((mname, selname, L, eps, si, "safe_vs_hmc", tuple(sorted(p.table.items()))), nontrivial=True)
                            ctx.note("safe_vs_hmc_paths")
                            q = by_table.get(tuple(sorted(p.table.items())))
                            if q is None or any(not np.array_equal(np.asarray(p.result[k]), np.asarray(q[k])) for k in p.result):
                                ctx.fail(comp, op, klass, "differs_from_HMC",
                                         dict(**detail, safe={k: p.result[k] for k in p.result}, hmc=q if q is not None else "no HMC path with the same momentum draws"))
                        if L > 1:  # the leapfrog reference is applied to SafeHMC for L = 1 only
                            continue
                    mass, off_trajectory = {}, 0
                    for p in paths:
                        r = p.result
                        new = {a: np.asarray(r[f"v_{a}"]) for a in addrs}
                        # nearest reference outcome in position space
                        xvec = np.concatenate([np.ravel(np.asarray(new[a], dtype=np.float64)) for a in moving])
                        dist = np.max(np.abs(ends - xvec), axis=1)
                        j = int(np.argmin(dist))
                        e = expected[j]
                        ctx.ev((mname, selname, L, eps, si, mode, tuple(np.round(np.concatenate([np.ravel(new[a]) for a in moving]), 5).tolist())),
                               nontrivial=True)
                        ctx.outcome((mname, selname, L, eps, si, e["z"]))
                        # unselected / non-continuous addresses: bit-identical
                        for a in addrs:
                            if a not in moving and not np.array_equal(new[a], start_real[a]):
                                ctx.fail(comp, op, klass, "unselected_changed", dict(**detail, address=a, new=new[a], old=start_real[a]))
                        if not all(close(new[a], e["end"][a]) for a in moving):
                            ctx.fail(comp, op, klass, "trajectory",
                                     dict(**detail, new={a: new[a] for a in moving}, nearest_leapfrog_end={a: e["end"][a] for a in moving},
                                          momentum_z=e["z"], max_abs_diff=float(dist[j]), alpha=r["w"], leapfrog_alpha=e["alpha"]))
                            off_trajectory += 1
                            continue
                        mass[j] = mass.get(j, 0.0) + p.prob
                        if not close(r["score"], e["logp"]):
                            ctx.fail(comp, op, klass, "score", dict(**detail, momentum_z=e["z"], expected=e["logp"], actual=r["score"]))
                        if not close(r["w"], e["alpha"]):
                            ctx.fail(comp, op, klass, "alpha",
                                     dict(**detail, momentum_z=e["z"], expected=e["alpha"], actual=r["w"], logp_start=lp0, logp_end=e["logp"]))
                        if si == 0 and mode == "jit":
                            ctx.sample(dict(**detail, momentum_z=e["z"], end={a: new[a] for a in moving}, alpha=r["w"], leapfrog_alpha=e["alpha"]))
                    if mode == "jit" and not off_trajectory:  # (a wrong trajectory is reported once, above)
                        bad = [expected[j]["z"] for j in range(len(expected)) if abs(mass.get(j, 0.0) - 1.0 / len(expected)) > 1e-6]
                        if bad:
                            ctx.fail(comp, op, klass, "momentum_distribution", dict(**detail, unmatched_momenta=bad[:5], n=len(bad)))

    return run


def cases(tier, seed):
    for mname, selname, seladdrs in SELECTIONS:
        for L in BOUNDS[tier]["L"]:
            if mname == "mixb" and selname == "all" and L != BOUNDS[tier]["L"][-1]:
                continue
            yield Case(f"{mname}/sel={selname}/L={L}", _run(mname, selname, seladdrs, L, tier, seed),
                       dict(model=mname, selection=selname, L=L))
    # SafeHMC (asserts an unchanged return value: only selections that leave the model's return value alone)
    for mname, selname, seladdrs in SAFE_SELECTIONS:
        for L in BOUNDS[tier]["L"]:
            yield Case(f"SafeHMC/{mname}/sel={selname}/L={L}", _run(mname, selname, seladdrs, L, tier, seed, safe=True),
                       dict(model=mname, selection=selname, L=L, request="SafeHMC"))
