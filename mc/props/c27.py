"""C27 - Rejuvenate returns the Metropolis-Hastings log acceptance ratio.

Enumerated: models (1-2 sites; flip, categorical, normal; independent and linked) x proposals
{prior-like, constant, random walk whose arguments depend on the current value of the proposed
address, proposals whose arguments depend on an address they do not propose, joint two-site
proposals} x invocation form {Rejuvenate on the whole trace with a @gen proposal, Rejuvenate on one
site inside a StaticRequest with a distribution as proposal} x start states x ALL proposal outcomes
(complete tree of `Rejuvenate.edit` through the seam: discrete proposals = whole support with exact
probabilities, normal proposals = loc + scale*z over the standardized alphabet).

Oracle (numpy float64 + scipy; model and proposal densities written out by hand):
 * the set of library paths is in bijection with the reference enumeration of the proposal run with
   arguments computed from the CURRENT trace (path probabilities equal) -> the new trace holds the
   proposed choices; addresses the proposal does not touch are unchanged; new score == log p(x');
 * weight == log p(x') + log q(x | x') - log p(x) - log q(x' | x), where q(. | s) is the proposal
   run with arguments computed from the choices of trace s: the backward term is evaluated at the OLD
   values of the proposed addresses with arguments computed from the NEW trace.
"""

from __future__ import annotations

import itertools
import math

import numpy as np

from ..common import Case, close

PROPERTY = "C27"
LEVEL = "exploration"
RULE = (
    "cases = (model, proposal, invocation form); each case = every start state of the value alphabet x the complete "
    "tree of proposal outcomes; distinct = (model, proposal, form, start state, proposed values); non-trivial = the "
    "proposed values differ from the current ones (otherwise every term cancels)"
)
ASSUMPTIONS = [
    "normal proposals and normal model sites are explored on the standardized value alphabet only "
    "(proposal outcomes loc + scale*z, z in seam.Z_ALPHABET; start values from a fixed alphabet)",
    "models and proposals outside the catalogue (more than two sites, vector combinators) are not covered",
]
BOUNDS = {
    "quick": dict(models=5, cases="all (model, proposal, form) of the catalogue", starts_per_model="all discrete states x 2 continuous", n_cont=3),
    "thorough": dict(models=6, cases="all (model, proposal, form) of the catalogue", starts_per_model="all discrete states x 3 continuous", n_cont=3,
                     extra="eager and jax.jit execution of the same request"),
}
JOBS = {"quick": 4, "thorough": 8}


# --------------------------------------------------------------------------------------------
# reference densities (numpy / math only)


def lp_site(kind, params, v):
    if kind == "flip":
        p = float(params[0])
        return math.log(p) if bool(v) else math.log1p(-p)
    if kind == "normal":
        mu, sd = float(params[0]), float(params[1])
        z = (float(v) - mu) / sd
        return -0.5 * z * z - math.log(sd) - 0.5 * math.log(2 * math.pi)
    if kind == "cat":
        logits = np.asarray(params[0], dtype=np.float64)
        lse = math.log(float(np.sum(np.exp(logits - logits.max())))) + float(logits.max())
        return float(logits[int(v)]) - lse
    raise ValueError(kind)


def support(kind, params, zs):
    """[(value, explorer probability)]"""
    if kind == "flip":
        p = float(params[0])
        return [(True, p), (False, 1 - p)]
    if kind == "cat":
        return [(k, math.exp(lp_site(kind, params, k))) for k in range(len(params[0]))]
    if kind == "normal":
        return [(float(params[0]) + float(params[1]) * z, 1.0 / len(zs)) for z in zs]
    raise ValueError(kind)


def model_logp(msites, a):
    return sum(lp_site(kind, fn(a), a[addr]) for addr, kind, fn in msites)


def prop_logq(psites, s, vals):
    """log q(vals | s): the proposal run with arguments computed from state s, scored at vals"""
    p, tot = {}, 0.0
    for addr, kind, fn in psites:
        tot += lp_site(kind, fn(s, p), vals[addr])
        p[addr] = vals[addr]
    return tot


def prop_enumerate(psites, s, zs):
    out = [({}, 1.0)]
    for addr, kind, fn in psites:
        nxt = []
        for p, pr in out:
            for v, q in support(kind, fn(s, p), zs):
                nxt.append(({**p, addr: v}, pr * q))
        out = nxt
    return out


# --------------------------------------------------------------------------------------------
# catalogue: reference description + builder of the real genjax objects


def _w(b, t, f):
    return t if bool(b) else f


CAT_LOGITS = (0.1, -0.4, 0.6)

MODELS = {
    "flip1": dict(
        sites=[("x", "flip", lambda a: (0.3,))],
        starts=lambda n: [dict(x=v) for v in (False, True)],
    ),
    "flip2": dict(
        sites=[("x", "flip", lambda a: (0.4,)), ("y", "flip", lambda a: (_w(a["x"], 0.8, 0.25),))],
        starts=lambda n: [dict(x=x, y=y) for x in (False, True) for y in (False, True)],
    ),
    "norm1": dict(
        sites=[("x", "normal", lambda a: (0.5, 1.2))],
        starts=lambda n: [dict(x=v) for v in (-0.7, 1.1, 0.2)[:n]],
    ),
    "lin2": dict(
        sites=[("x", "normal", lambda a: (0.0, 1.0)), ("y", "normal", lambda a: (a["x"], 0.7))],
        starts=lambda n: [dict(x=x, y=y) for x, y in ((0.3, 1.0), (-1.2, 0.4), (2.0, -0.5))[:n]],
    ),
    "mix2": dict(
        sites=[("b", "flip", lambda a: (0.35,)), ("x", "normal", lambda a: (_w(a["b"], 1.0, -1.0), 0.8))],
        starts=lambda n: [dict(b=b, x=x) for b in (False, True) for x in (0.4, -0.6, 1.7)[:n]],
    ),
    "cat2": dict(
        sites=[("c", "cat", lambda a: (CAT_LOGITS,)), ("y", "normal", lambda a: (0.5 * a["c"], 1.0))],
        starts=lambda n: [dict(c=c, y=y) for c in (0, 1, 2) for y in (0.9, -0.3)[: max(1, n - 1)]],
    ),
}

# proposal: model, klass (input class of the signature), forms, sites (reference), i.e. (addr, kind, fn(s, p))
PROPOSALS = {
    # --- flip1
    "flip1/prior": dict(model="flip1", klass="state_independent_proposal", forms=("whole", "site"),
                        sites=[("x", "flip", lambda s, p: (0.3,))]),
    "flip1/const": dict(model="flip1", klass="state_independent_proposal", forms=("whole", "site"),
                        sites=[("x", "flip", lambda s, p: (0.6,))]),
    "flip1/walk": dict(model="flip1", klass="state_dependent_proposal", forms=("whole", "site"),
                       sites=[("x", "flip", lambda s, p: (_w(s["x"], 0.7, 0.2),))]),
    # --- flip2
    "flip2/prior_x": dict(model="flip2", klass="state_independent_proposal", forms=("whole", "site"),
                          sites=[("x", "flip", lambda s, p: (0.4,))]),
    "flip2/walk_x": dict(model="flip2", klass="state_dependent_proposal", forms=("whole", "site"),
                         sites=[("x", "flip", lambda s, p: (_w(s["x"], 0.7, 0.2),))]),
    "flip2/y_given_x": dict(model="flip2", klass="proposal_args_from_unproposed_address", forms=("whole",),
                            sites=[("y", "flip", lambda s, p: (_w(s["x"], 0.9, 0.3),))]),
    "flip2/joint": dict(model="flip2", klass="state_dependent_proposal", forms=("whole",),
                        sites=[("x", "flip", lambda s, p: (_w(s["x"], 0.7, 0.2),)),
                               ("y", "flip", lambda s, p: (_w(bool(p["x"]) != bool(s["y"]), 0.6, 0.15),))]),
    # --- norm1
    "norm1/prior": dict(model="norm1", klass="state_independent_proposal", forms=("whole", "site"),
                        sites=[("x", "normal", lambda s, p: (0.5, 1.2))]),
    "norm1/const": dict(model="norm1", klass="state_independent_proposal", forms=("whole", "site"),
                        sites=[("x", "normal", lambda s, p: (1.0, 0.8))]),
    "norm1/walk": dict(model="norm1", klass="state_dependent_proposal", forms=("whole", "site"),
                       sites=[("x", "normal", lambda s, p: (s["x"], 0.5))]),
    "norm1/drift": dict(model="norm1", klass="state_dependent_proposal", forms=("whole", "site"),
                        sites=[("x", "normal", lambda s, p: (0.8 * s["x"] + 0.1, 0.6))]),
    # --- lin2
    "lin2/prior_x": dict(model="lin2", klass="state_independent_proposal", forms=("whole", "site"),
                         sites=[("x", "normal", lambda s, p: (0.0, 1.0))]),
    "lin2/walk_x": dict(model="lin2", klass="state_dependent_proposal", forms=("whole", "site"),
                        sites=[("x", "normal", lambda s, p: (s["x"], 0.5))]),
    "lin2/gibbs_y": dict(model="lin2", klass="proposal_args_from_unproposed_address", forms=("whole",),
                         sites=[("y", "normal", lambda s, p: (s["x"], 0.7))]),
    "lin2/x_given_y": dict(model="lin2", klass="proposal_args_from_unproposed_address", forms=("whole",),
                           sites=[("x", "normal", lambda s, p: (0.5 * s["y"], 0.9))]),
    "lin2/joint_walk": dict(model="lin2", klass="state_dependent_proposal", forms=("whole",),
                            sites=[("x", "normal", lambda s, p: (s["x"], 0.5)),
                                   ("y", "normal", lambda s, p: (0.5 * (s["y"] + p["x"]), 0.4))]),
    # --- mix2
    "mix2/const_b": dict(model="mix2", klass="state_independent_proposal", forms=("whole", "site"),
                         sites=[("b", "flip", lambda s, p: (0.55,))]),
    "mix2/walk_b": dict(model="mix2", klass="state_dependent_proposal", forms=("whole", "site"),
                        sites=[("b", "flip", lambda s, p: (_w(s["b"], 0.25, 0.65),))]),
    "mix2/x_given_b": dict(model="mix2", klass="proposal_args_from_unproposed_address", forms=("whole",),
                           sites=[("x", "normal", lambda s, p: (_w(s["b"], 0.5, -0.5) + 0.5 * s["x"], 0.7))]),
    "mix2/joint": dict(model="mix2", klass="state_dependent_proposal", forms=("whole",),
                       sites=[("b", "flip", lambda s, p: (_w(s["b"], 0.25, 0.65),)),
                              ("x", "normal", lambda s, p: (_w(p["b"], 1.0, -1.0) * 0.5 + 0.5 * s["x"], 0.7))]),
    # --- cat2 (thorough)
    "cat2/const_c": dict(model="cat2", klass="state_independent_proposal", forms=("whole", "site"),
                         sites=[("c", "cat", lambda s, p: ((0.3, 0.0, -0.2),))]),
    "cat2/walk_c": dict(model="cat2", klass="state_dependent_proposal", forms=("whole", "site"),
                        sites=[("c", "cat", lambda s, p: (tuple(0.9 if k == int(s["c"]) else -0.3 * k for k in range(3)),))]),
    "cat2/y_given_c": dict(model="cat2", klass="proposal_args_from_unproposed_address", forms=("whole",),
                           sites=[("y", "normal", lambda s, p: (0.5 * s["c"], 1.3))]),
}


def build_model(name):
    import jax.numpy as jnp
    from genjax import categorical, flip, gen, normal

    if name == "flip1":
        @gen
        def m():
            return flip(0.3) @ "x"
    elif name == "flip2":
        @gen
        def m():
            x = flip(0.4) @ "x"
            return flip(jnp.where(x, 0.8, 0.25)) @ "y"
    elif name == "norm1":
        @gen
        def m():
            return normal(0.5, 1.2) @ "x"
    elif name == "lin2":
        @gen
        def m():
            x = normal(0.0, 1.0) @ "x"
            return normal(x, 0.7) @ "y"
    elif name == "mix2":
        @gen
        def m():
            b = flip(0.35) @ "b"
            return normal(jnp.where(b, 1.0, -1.0), 0.8) @ "x"
    elif name == "cat2":
        @gen
        def m():
            c = categorical(logits=jnp.array(CAT_LOGITS)) @ "c"
            return normal(0.5 * c, 1.0) @ "y"
    else:
        raise KeyError(name)
    return m


def build_request(pname, form):
    """the real Rejuvenate request (hand-written genjax code, independent of the reference lambdas)"""
    import jax.numpy as jnp
    from genjax import categorical, flip, gen, normal
    from genjax._src.generative_functions.static import StaticRequest
    from genjax.inference.requests import Rejuvenate

    W = jnp.where

    def whole(q, mapping):
        return Rejuvenate(q, mapping)

    def site(addr, dist, mapping):
        return StaticRequest({addr: Rejuvenate(dist, mapping)})

    def single(addr, dist, argfn_whole, argfn_site):
        """one-address proposal `dist(*args) @ addr`"""
        if form == "site":
            return site(addr, dist, argfn_site)

        if dist is flip:
            @gen
            def q(p):
                return flip(p) @ addr
        else:
            @gen
            def q(mu, sd):
                return normal(mu, sd) @ addr

        return whole(q, argfn_whole)

    if pname in ("flip1/prior", "flip1/const", "flip2/prior_x", "mix2/const_b"):
        addr = "b" if pname.startswith("mix2") else "x"
        p = {"flip1/prior": 0.3, "flip1/const": 0.6, "flip2/prior_x": 0.4, "mix2/const_b": 0.55}[pname]
        return single(addr, flip, lambda chm: (p,), lambda chm: (p,))
    if pname in ("flip1/walk", "flip2/walk_x"):
        return single("x", flip, lambda chm: (W(chm["x"], 0.7, 0.2),), lambda chm: (W(chm.get_value(), 0.7, 0.2),))
    if pname == "mix2/walk_b":
        return single("b", flip, lambda chm: (W(chm["b"], 0.25, 0.65),), lambda chm: (W(chm.get_value(), 0.25, 0.65),))
    if pname == "flip2/y_given_x":
        return single("y", flip, lambda chm: (W(chm["x"], 0.9, 0.3),), None)
    if pname == "flip2/joint":
        @gen
        def q(x, y):
            x2 = flip(W(x, 0.7, 0.2)) @ "x"
            return flip(W(jnp.logical_xor(x2, y), 0.6, 0.15)) @ "y"

        return whole(q, lambda chm: (chm["x"], chm["y"]))
    if pname in ("norm1/prior", "norm1/const", "lin2/prior_x"):
        mu, sd = {"norm1/prior": (0.5, 1.2), "norm1/const": (1.0, 0.8), "lin2/prior_x": (0.0, 1.0)}[pname]
        return single("x", normal, lambda chm: (mu, sd), lambda chm: (mu, sd))
    if pname in ("norm1/walk", "lin2/walk_x"):
        return single("x", normal, lambda chm: (chm["x"], 0.5), lambda chm: (chm.get_value(), 0.5))
    if pname == "norm1/drift":
        return single("x", normal, lambda chm: (0.8 * chm["x"] + 0.1, 0.6), lambda chm: (0.8 * chm.get_value() + 0.1, 0.6))
    if pname == "lin2/gibbs_y":
        return single("y", normal, lambda chm: (chm["x"], 0.7), None)
    if pname == "lin2/x_given_y":
        return single("x", normal, lambda chm: (0.5 * chm["y"], 0.9), None)
    if pname == "lin2/joint_walk":
        @gen
        def q(x, y):
            x2 = normal(x, 0.5) @ "x"
            return normal(0.5 * (y + x2), 0.4) @ "y"

        return whole(q, lambda chm: (chm["x"], chm["y"]))
    if pname == "mix2/x_given_b":
        return single("x", normal, lambda chm: (W(chm["b"], 0.5, -0.5) + 0.5 * chm["x"], 0.7), None)
    if pname == "mix2/joint":
        @gen
        def q(b, x):
            b2 = flip(W(b, 0.25, 0.65)) @ "b"
            return normal(W(b2, 1.0, -1.0) * 0.5 + 0.5 * x, 0.7) @ "x"

        return whole(q, lambda chm: (chm["b"], chm["x"]))
    if pname == "cat2/const_c":
        lg = jnp.array([0.3, 0.0, -0.2])
        if form == "site":
            return site("c", categorical, lambda chm: (lg,))  # bare argument = logits (documented default)

        @gen
        def q():
            return categorical(logits=lg) @ "c"

        return whole(q, lambda chm: ())
    if pname == "cat2/walk_c":
        def lgs(c):
            k = jnp.arange(3)
            return W(k == c, 0.9, -0.3 * k)

        if form == "site":
            return site("c", categorical, lambda chm: (lgs(chm.get_value()),))

        @gen
        def q(c):
            return categorical(logits=lgs(c)) @ "c"

        return whole(q, lambda chm: (chm["c"],))
    if pname == "cat2/y_given_c":
        return single("y", normal, lambda chm: (0.5 * chm["c"], 1.3), None)
    raise KeyError(pname)


# --------------------------------------------------------------------------------------------


def _jval(kind, v):
    import jax.numpy as jnp

    if kind == "flip":
        return jnp.array(bool(v))
    if kind == "cat":
        return jnp.array(int(v), dtype=jnp.int32)
    return jnp.array(float(v), dtype=jnp.float32)


def _same(kind, a, b):
    if kind == "normal":
        return close(a, b)
    return int(a) == int(b)


def _run(pname, form, tier, seed):
    spec = PROPOSALS[pname]
    mspec = MODELS[spec["model"]]

    def run(ctx):
        import jax
        from genjax import ChoiceMap

        from .. import seam
        from ..harness import base_key

        key = base_key(seed)
        n_start = 3 if tier == "thorough" else 2
        zs = seam.Z_ALPHABET
        model = build_model(spec["model"])
        request = build_request(pname, form)
        msites, psites = mspec["sites"], spec["sites"]
        kinds = {addr: kind for addr, kind, _ in msites}
        addrs = [a for a, _, _ in msites]
        proposed = [a for a, _, _ in psites]
        comp, op, klass = "Rejuvenate.edit", f"edit:{form}", spec["klass"]

        def edit(k, tr):
            new_tr, w, _rd, _bwd = request.edit(k, tr, ())
            chm = new_tr.get_choices()
            return dict(w=w, score=new_tr.get_score(), **{f"v_{a}": chm[a] for a in addrs})

        modes = [("eager", edit)]
        if tier == "thorough":
            modes.append(("jit", jax.jit(edit)))

        for si, start in enumerate(mspec["starts"](n_start)):
            chm = ChoiceMap.empty()
            for a in addrs:
                chm = chm | ChoiceMap.kw(**{a: _jval(kinds[a], start[a])})
            tr, _ = model.importance(key, chm, ())
            start_real = {a: np.asarray(tr.get_choices()[a]) for a in addrs}
            lp_old = model_logp(msites, start)
            expected = prop_enumerate(psites, start, zs)
            for mode, fn in modes:
                detail0 = dict(model=spec["model"], proposal=pname, form=form, mode=mode, start=start)
                try:
                    with seam.seam(n_cont=len(zs)):
                        paths, stats = seam.explore(lambda: fn(key, tr), max_paths=512)
                except seam.TreeCapped as e:
                    ctx.cap(f"{pname}/{form}: {e}")
                    continue
                except Exception as e:
                    ctx.ev((pname, form, mode, si, "raised"), nontrivial=True)
                    ctx.fail(comp, op, klass, f"exception:{type(e).__name__}", dict(**detail0, error=str(e)[:300]))
                    continue
                ctx.note("trees")
                ctx.note("paths", len(paths))
                tot = seam.total_prob(paths)
                if abs(tot - 1.0) > 1e-6:
                    ctx.fail(comp, op, klass, "sum_prob", dict(**detail0, total=tot))
                matched = {}
                for p in paths:
                    r = p.result
                    new = {a: r[f"v_{a}"] for a in addrs}
                    hit = [i for i, (pv, _) in enumerate(expected) if all(_same(kinds[a], new[a], pv[a]) for a in proposed)]
                    changed = any(not _same(kinds[a], new[a], start[a]) for a in proposed)
                    ctx.ev((pname, form, mode, si, tuple(repr(np.asarray(new[a]).tolist()) for a in addrs)), nontrivial=changed)
                    ctx.outcome((spec["model"], tuple(repr(np.asarray(new[a]).tolist()) for a in addrs)))
                    if len(hit) != 1:
                        ctx.fail(comp, op, klass, "choices",
                                 dict(**detail0, new=new, reason="proposed values are not an outcome of q(. | current trace)",
                                      expected_outcomes=[pv for pv, _ in expected]))
                        continue
                    pv, pr = expected[hit[0]]
                    matched[hit[0]] = matched.get(hit[0], 0.0) + p.prob
                    new_ref = {**start, **pv}
                    # untouched addresses keep their values (exactly)
                    for a in addrs:
                        if a not in proposed and not np.array_equal(np.asarray(new[a]), start_real[a]):
                            ctx.fail(comp, op, klass, "choices", dict(**detail0, new=new, reason=f"unproposed address {a} changed"))
                    lp_new = model_logp(msites, new_ref)
                    if not close(r["score"], lp_new):
                        ctx.fail(comp, op, klass, "score", dict(**detail0, new=new, expected=lp_new, actual=r["score"]))
                    fwd = prop_logq(psites, start, pv)
                    bwd = prop_logq(psites, new_ref, {a: start[a] for a in proposed})
                    w_ref = lp_new + bwd - lp_old - fwd
                    if not close(r["w"], w_ref):
                        # what the weight would be if the backward arguments were computed from the old choices
                        bwd_stale = prop_logq(psites, start, {a: start[a] for a in proposed})
                        ctx.fail(comp, op, klass, "weight",
                                 dict(**detail0, new=new, expected=w_ref, actual=r["w"],
                                      terms=dict(logp_new=lp_new, logp_old=lp_old, log_q_fwd=fwd, log_q_bwd=bwd),
                                      weight_if_bwd_args_from_old_choices=lp_new + bwd_stale - lp_old - fwd))
                    if si == 0 and mode == "eager":
                        ctx.sample(dict(**detail0, new=new, weight=r["w"], expected_weight=w_ref, path_prob=p.prob))
                for i, (pv, pr) in enumerate(expected):
                    if abs(matched.get(i, 0.0) - pr) > 1e-5:
                        ctx.fail(comp, op, klass, "proposal_distribution",
                                 dict(**detail0, outcome=pv, expected_prob=pr, actual_prob=matched.get(i, 0.0)))

    return run


# --------------------------------------------------------------------------------------------
# Rejuvenate whose arguments change in the same edit: a StaticRequest in which a sibling Update moves
# the upstream choice feeding the rejuvenated address.  weight(total) = log p(x_new, y') + log q(y | y')
# - log p(x, y) - log q(y' | y)

SIBLING = {
    # name: (model, y-kind, proposal params fn(current y), new x values)
    "flip2/const_y": ("flip2", "flip", lambda y: (0.6,), (True, False)),
    "flip2/walk_y": ("flip2", "flip", lambda y: (_w(y, 0.7, 0.2),), (True, False)),
    "lin2/walk_y": ("lin2", "normal", lambda y: (y, 0.5), (0.9, -0.4)),
    "lin2/const_y": ("lin2", "normal", lambda y: (0.2, 0.8), (0.9, -0.4)),
}


def _run_sibling(name, tier, seed):
    mname, ykind, qfn, xnews = SIBLING[name]
    mspec = MODELS[mname]

    def run(ctx):
        import jax
        import jax.numpy as jnp
        from genjax import ChoiceMap, Update, flip, normal
        from genjax._src.generative_functions.static import StaticRequest
        from genjax.inference.requests import Rejuvenate

        from .. import seam
        from ..harness import base_key

        key = base_key(seed)
        zs = seam.Z_ALPHABET
        model = build_model(mname)
        msites = mspec["sites"]
        kinds = {addr: kind for addr, kind, _ in msites}
        dist = flip if ykind == "flip" else normal
        W = jnp.where
        mapping = {
            "flip2/const_y": lambda chm: (0.6,),
            "flip2/walk_y": lambda chm: (W(chm.get_value(), 0.7, 0.2),),
            "lin2/walk_y": lambda chm: (chm.get_value(), 0.5),
            "lin2/const_y": lambda chm: (0.2, 0.8),
        }[name]
        comp, op, klass = "Rejuvenate.edit", "edit:site+sibling_update", "arguments_change_in_same_edit"
        for si, start in enumerate(mspec["starts"](2)):
            chm = ChoiceMap.empty()
            for a in ("x", "y"):
                chm = chm | ChoiceMap.kw(**{a: _jval(kinds[a], start[a])})
            tr, _ = model.importance(key, chm, ())
            lp_old = model_logp(msites, start)
            for xn in xnews:
                if _same(kinds["x"], xn, start["x"]):
                    continue
                req = StaticRequest({"x": Update(ChoiceMap.choice(_jval(kinds["x"], xn))), "y": Rejuvenate(dist, mapping)})

                def edit(k, tr):
                    new_tr, w, _rd, _bwd = req.edit(k, tr, ())
                    c = new_tr.get_choices()
                    return dict(w=w, score=new_tr.get_score(), x=c["x"], y=c["y"])

                detail0 = dict(model=mname, proposal=name, start=start, new_x=xn)
                try:
                    with seam.seam(n_cont=len(zs)):
                        paths, _ = seam.explore(lambda: edit(key, tr), max_paths=64)
                except Exception as e:
                    ctx.ev((name, si, repr(xn), "raised"), nontrivial=True)
                    ctx.fail(comp, op, klass, f"exception:{type(e).__name__}", dict(**detail0, error=str(e)[:300]))
                    continue
                for p in paths:
                    r = p.result
                    ctx.ev((name, si, repr(xn), repr(np.asarray(r["y"]).tolist())), nontrivial=True)
                    ynew = bool(r["y"]) if ykind == "flip" else float(r["y"])
                    if not _same(kinds["x"], r["x"], xn):
                        ctx.fail(comp, op, klass, "choices", dict(**detail0, reason="sibling update not installed"))
                        continue
                    new_ref = dict(x=xn, y=ynew)
                    lp_new = model_logp(msites, new_ref)
                    fwd = lp_site(ykind, qfn(start["y"]), ynew)
                    bwd = lp_site(ykind, qfn(ynew), start["y"])
                    w_ref = lp_new + bwd - lp_old - fwd
                    if not close(r["score"], lp_new):
                        ctx.fail(comp, op, klass, "score", dict(**detail0, new=new_ref, expected=lp_new, actual=float(r["score"])))
                    if not close(r["w"], w_ref):
                        ctx.fail(comp, op, klass, "weight", dict(**detail0, new=new_ref, expected=w_ref, actual=float(r["w"])))
            ctx.sample(dict(model=mname, proposal=name, start=start))

    return run


def cases(tier, seed):
    for name in SIBLING:
        yield Case(f"sibling/{name}", _run_sibling(name, tier, seed), dict(proposal=name, form="site+sibling_update"))
    for pname, spec in PROPOSALS.items():
        if tier == "quick" and spec["model"] == "cat2":
            continue
        for form in spec["forms"]:
            yield Case(f"{pname}/{form}", _run(pname, form, tier, seed),
                       dict(model=spec["model"], proposal=pname, form=form, input_class=spec["klass"]))
