"""C19 - Mask algebra matches its truth tables for concrete and traced flags.

Enumerated (bounded-exhaustive): every operation of the table below x every value-pytree kind x every
assignment of flags from the flag alphabet, in five evaluation modes:

  eager       flags in {True, False, jnp.array(True), jnp.array(False)}^3 (python bools and concrete 0-d arrays)
  jit         flags in {True, False (static python), traced True, traced False}^3, values traced (jax.jit)
  vmap        all triples of bool vectors of length n in {2,3}: jit(vmap(op)) over per-element (flag, value)
  vectorized  the same vectors as *vectorized masks* (flag shape (n,), every leaf with leading axis n), eager
  vectorized_jit  ditto with the flag vectors traced under jax.jit

Operations: | ^ ~ Mask.build (plain and nested) flatten maybe_mask (plain and nested) unmask(default) or_n xor_n
__getitem__ and four compound expressions.  Oracle: the documented truth tables evaluated per element in plain
python/numpy.  Observable: (flag, value where the flag is true); `None` (statically absent) == flag False and a
raw value (statically present) == flag True.  All modes are compared with the same oracle, hence with each other.
"""

from __future__ import annotations

import itertools

import numpy as np

from ..common import Case

PROPERTY = "C19"
LEVEL = "exploration"
RULE = (
    "cases = value kind x evaluation mode; within a case every flag triple of the mode's alphabet is run through "
    "every operation; one evaluation = one operation on one flag assignment compared with the truth-table oracle; "
    "distinct = (mode, value kind, operation, flag assignment); non-trivial = at least one flag is not a python "
    "bool, or the operation combines two masks"
)
ASSUMPTIONS = [
    "observable of a Mask is (primal flag, value where the flag is true); None == flag False; raw value == flag True",
    "masks combined with | ^ have identical flag shapes and leaf shapes (mixing is documented to raise ValueError)",
    "a vectorized mask has flag shape (n,) and every leaf shape (n, ...) as documented in the Mask docstring",
    "Diff-wrapped flags and unmask() without default (checkify) are outside this property",
    "value alphabets are a handful of distinct small numbers (selection only moves data, it does not compute)",
]
BOUNDS = {
    "quick": dict(value_kinds=6, scalar_flag_alphabet=4, eager_triples=64, jit_static_patterns=9, vector_lengths=[2, 3],
                  vmap_triples="all 64 + all 512", vectorized_eager="n=2: 16 pairs x 2 thirds; n=3: 64 pairs x 1 third",
                  vectorized_jit="all 64 + all 512", ops="19 + __getitem__ paths"),
    "thorough": dict(value_kinds=6, scalar_flag_alphabet=4, eager_triples=64, jit_static_patterns=27, vector_lengths=[2, 3],
                     vmap_triples="all 64 + all 512", vectorized_eager="all 64 + all 512",
                     vectorized_jit="all 64 + all 512", ops="19 + __getitem__ paths"),
}
JOBS = {"quick": 6, "thorough": 12}

KINDS = ["scalar", "pyscalar", "tuple", "dict", "array", "matrix"]
# leaf rank per element > 0  => a vectorized mask has leaves of higher rank than its flag
TRAILING = {"scalar": False, "pyscalar": False, "tuple": False, "dict": True, "array": True, "matrix": True}


# ---------------------------------------------------------------------------------------------
# value alphabet (numpy; operand k in 1..4, element i)


def elem_value(kind: str, k: int, i: int = 0):
    b = 10.0 * k + 100.0 * i
    if kind == "scalar":
        return np.float32(b + 1)
    if kind == "pyscalar":
        return float(b + 1)
    if kind == "tuple":
        return (np.float32(b + 1), np.int32(b + 2), np.bool_((k + i) % 2 == 1))
    if kind == "dict":
        return {"a": np.float32(b + 1), "b": {"c": np.array([b + 2, b + 3], np.float32)}}
    if kind == "array":
        return np.array([b + 1, b + 2, b + 3], np.float32)
    if kind == "matrix":
        return np.array([[b + 1, b + 2], [b + 3, b + 4]], np.float32)
    raise ValueError(kind)


def stack(vals):
    import jax.tree_util as jtu

    return jtu.tree_map(lambda *xs: np.stack([np.asarray(x) for x in xs]), *vals)


def to_lib(v, kind):
    import jax.numpy as jnp
    import jax.tree_util as jtu

    if kind == "pyscalar":
        return v
    return jtu.tree_map(jnp.asarray, v)


def getitem_paths(kind: str, vector_n: int | None):
    """index paths used for Mask.__getitem__ (every leaf must be indexable by the path)."""
    if vector_n is None:
        if kind == "array":
            return [(0,), (2,)]
        if kind == "matrix":
            return [(1,), (0, 1)]
        return []
    paths = [(i,) for i in range(vector_n)]
    if kind == "array":
        paths += [(i, 2) for i in range(vector_n)]
    if kind == "matrix":
        paths += [(vector_n - 1, 0, 1)]
    return paths


# ---------------------------------------------------------------------------------------------
# the operations (library side).  Python-level exceptions are recorded per operation.

OPS = [
    "or", "xor", "inv", "build", "build_nested", "flatten", "flatten_or", "flatten_xor", "maybe", "maybe_nested",
    "unmask", "unmask_or", "or_n", "xor_n", "inv_inv", "or_inv", "xor_then_or", "inv_or", "build_of_xor",
]
COMPONENT = {
    "or": "Mask.__or__", "xor": "Mask.__xor__", "inv": "Mask.__invert__", "build": "Mask.build",
    "build_nested": "Mask.build", "flatten": "Mask.flatten", "flatten_or": "Mask.flatten", "flatten_xor": "Mask.flatten",
    "maybe": "Mask.maybe_mask", "maybe_nested": "Mask.maybe_mask", "unmask": "Mask.unmask", "unmask_or": "Mask.unmask",
    "or_n": "Mask.or_n", "xor_n": "Mask.xor_n", "inv_inv": "Mask.__invert__", "or_inv": "Mask.expr",
    "xor_then_or": "Mask.expr", "inv_or": "Mask.expr", "build_of_xor": "Mask.expr", "getitem": "Mask.__getitem__",
}
BINARY = {"or", "xor", "build_nested", "flatten_or", "flatten_xor", "maybe_nested", "unmask_or", "or_n", "xor_n", "or_inv",
          "xor_then_or", "inv_or", "build_of_xor"}


def gkey(p) -> str:
    return "getitem:" + ",".join(str(i) for i in p)


def gpath(op: str):
    return tuple(int(i) for i in op.split(":")[1].split(","))


def lib_ops(f1, f2, f3, v1, v2, v3, d, errs: dict, paths):
    from genjax import Mask

    out = {}

    def run(name, thunk):
        try:
            out[name] = thunk()
        except Exception as e:  # recorded; decided by the caller
            errs[name] = e

    def m(v, f):
        return Mask(v, f)

    run("or", lambda: m(v1, f1) | m(v2, f2))
    run("xor", lambda: m(v1, f1) ^ m(v2, f2))
    run("inv", lambda: ~m(v1, f1))
    run("build", lambda: Mask.build(v1, f1))
    run("build_nested", lambda: Mask.build(m(v1, f1), f2))
    run("flatten", lambda: m(v1, f1).flatten())
    run("flatten_or", lambda: (m(v1, f1) | m(v2, f2)).flatten())
    run("flatten_xor", lambda: (m(v1, f1) ^ m(v2, f2)).flatten())
    run("maybe", lambda: Mask.maybe_mask(v1, f1))
    run("maybe_nested", lambda: Mask.maybe_mask(m(v1, f1), f2))
    run("unmask", lambda: m(v1, f1).unmask(default=d))
    run("unmask_or", lambda: (m(v1, f1) | m(v2, f2)).unmask(default=d))
    run("or_n", lambda: Mask.or_n(m(v1, f1), m(v2, f2), m(v3, f3)))
    run("xor_n", lambda: Mask.xor_n(m(v1, f1), m(v2, f2), m(v3, f3)))
    run("inv_inv", lambda: ~~m(v1, f1))
    run("or_inv", lambda: m(v1, f1) | ~m(v2, f2))
    run("xor_then_or", lambda: (m(v1, f1) ^ m(v2, f2)) | m(v3, f3))
    run("inv_or", lambda: ~(m(v1, f1) | m(v2, f2)))
    run("build_of_xor", lambda: Mask.build(m(v1, f1) ^ m(v2, f2), f3))
    for p in paths:
        run(gkey(p), lambda p=p: m(v1, f1)[p if len(p) > 1 else p[0]])
    return out


# ---------------------------------------------------------------------------------------------
# oracle: truth tables on one element; e = (flag: bool, value)


def _or(a, b):
    return (a[0] or b[0], a[1] if a[0] else b[1])


def _xor(a, b):
    return (a[0] != b[0], a[1] if a[0] else b[1])


def _inv(a):
    return (not a[0], a[1])


def ref_ops(e1, e2, e3, d, paths, index_flag):
    """returns name -> ("mask", flag, value) | ("raw", value).  `index_flag(path)` gives the flag of m1[path]."""
    r = {}
    r["or"] = _or(e1, e2)
    r["xor"] = _xor(e1, e2)
    r["inv"] = _inv(e1)
    r["build"] = e1
    r["build_nested"] = (e1[0] and e2[0], e1[1])
    r["flatten"] = e1
    r["flatten_or"] = _or(e1, e2)
    r["flatten_xor"] = _xor(e1, e2)
    r["maybe"] = e1
    r["maybe_nested"] = (e1[0] and e2[0], e1[1])
    r["or_n"] = _or(_or(e1, e2), e3)
    r["xor_n"] = _xor(_xor(e1, e2), e3)
    r["inv_inv"] = e1
    r["or_inv"] = _or(e1, _inv(e2))
    r["xor_then_or"] = _or(_xor(e1, e2), e3)
    r["inv_or"] = _inv(_or(e1, e2))
    x = _xor(e1, e2)
    r["build_of_xor"] = (x[0] and e3[0], x[1])
    out = {k: ("mask", v[0], v[1]) for k, v in r.items()}
    out["unmask"] = ("raw", e1[1] if e1[0] else d)
    o = _or(e1, e2)
    out["unmask_or"] = ("raw", o[1] if o[0] else d)
    return out


def _index(v, path):
    import jax.tree_util as jtu

    return jtu.tree_map(lambda x: np.asarray(x)[path], v)


# ---------------------------------------------------------------------------------------------
# comparison


def _leaves(v):
    import jax.tree_util as jtu

    ls, td = jtu.tree_flatten(v)
    return [np.asarray(x) for x in ls], td


def same_value(got, exp, sel=None) -> str | None:
    """None if equal, else which aspect differs.  `sel` indexes the leading axis of `got` (vector modes)."""
    gl, gt = _leaves(got)
    el, et = _leaves(exp)
    if len(gl) != len(el) or gt.num_nodes != et.num_nodes:
        return "structure"
    for g, e in zip(gl, el):
        if sel is not None:
            if g.ndim == 0 or g.shape[0] <= sel:
                return "shape"
            g = g[sel]
        if g.shape != e.shape:
            return "shape"
        if not np.array_equal(g.astype(np.float64), e.astype(np.float64)):
            return "value_where_valid"
    return None


def observe(r, n):
    """(flag array, value) of a library result; None -> flag False, raw -> flag True."""
    from genjax import Mask

    if r is None:
        return np.zeros((n,) if n else (), bool), None, "none"
    if isinstance(r, Mask):
        return np.asarray(r.primal_flag()), r.value, "mask"
    return np.ones((n,) if n else (), bool), r, "raw"


class Checker:
    def __init__(self, ctx, kind, mode, n):
        self.ctx, self.kind, self.mode, self.n = ctx, kind, mode, n
        self.reported = set()
        # vectorized masks whose leaves have more axes than the flag get their own class (prefix-matchable)
        trailing = bool(n and TRAILING[kind] and mode.startswith("vectorized"))
        self.input_class = ("leaf_rank>flag_rank:" if trailing else "") + mode

    def fail(self, op, symptom, detail):
        name = op.split(":")[0]
        sig = (name, symptom)
        if sig in self.reported:  # one written-out failure per signature and case (Ctx keeps at most 40)
            self.ctx.note("repeated_failures_same_signature")
            return
        self.reported.add(sig)
        self.ctx.fail(COMPONENT[name], name, self.input_class, symptom, dict(kind=self.kind, **detail))

    def compare(self, flags_desc, fvecs, vals, dval, out, errs, paths, nontrivial_base):
        """fvecs: three bool lists (length n, or 1 for scalar modes); vals: per operand list of element values."""
        n = self.n
        m = n or 1
        for op in list(OPS) + [gkey(p) for p in paths]:
            name = op.split(":")[0]
            key = (self.mode, self.kind, str(op), flags_desc)
            nontriv = nontrivial_base or name in BINARY
            self.ctx.ev(key, nontriv)
            detail = dict(op=str(op), flags=flags_desc)
            if op in errs:
                e = errs[op]
                self.fail(op, f"exception:{type(e).__name__}", dict(detail, message=str(e)[:300]))
                continue
            if op not in out:
                self.fail(op, "missing_result", detail)
                continue
            res = out[op]
            exp_elems = []
            for i in range(m):
                e1, e2, e3 = ((bool(fvecs[k][i]), vals[k][i]) for k in range(3))
                d = dval[i]
                if name == "getitem":
                    p = gpath(op)
                    if n:  # vectorized mask: first component indexes the element
                        if i != p[0]:
                            exp_elems.append(None)
                            continue
                        sub = p[1:]
                        exp_elems.append(("mask", e1[0], _index(e1[1], sub) if sub else e1[1]))
                    else:
                        exp_elems.append(("mask", e1[0], _index(e1[1], p)))
                else:
                    exp_elems.append(ref_ops(e1, e2, e3, d, paths, None)[name])
            if name == "getitem" and n:
                # result is a single element
                i = gpath(op)[0]
                tag, ef, evv = exp_elems[i]
                gf, gv, rep = observe(res, 0)
                if gf.shape != () or bool(gf) != ef:
                    self.fail(op, "flag", dict(detail, expected=ef, actual=gf.tolist()))
                elif ef:
                    w = same_value(gv, evv)
                    if w:
                        self.fail(op, w, dict(detail, expected=evv, actual=gv))
                continue
            kind0 = exp_elems[0][0]
            if kind0 == "raw":
                for i in range(m):
                    w = same_value(res, exp_elems[i][1], i if n else None)
                    if w:
                        self.fail(op, w if w != "value_where_valid" else "value", dict(detail, element=i, expected=exp_elems[i][1], actual=res))
                        break
                continue
            gf, gv, rep = observe(res, n)
            ef = np.array([e[1] for e in exp_elems], bool)
            if not n:
                ef = ef.reshape(())
            if gf.shape != ef.shape or not np.array_equal(gf, ef):
                self.fail(op, "flag", dict(detail, expected=ef.tolist(), actual=gf.tolist(), representation=rep))
                continue
            for i in range(m):
                if exp_elems[i][1]:
                    w = same_value(gv, exp_elems[i][2], i if n else None)
                    if w:
                        self.fail(op, w, dict(detail, element=i, expected=exp_elems[i][2], actual=gv))
                        break
            # documented representation for concrete python flags: flatten/maybe_mask give value / None
            if name in ("flatten", "maybe") and self.mode in ("eager", "jit") and isinstance(fvecs[0][0], bool) and flags_desc[0] in ("T", "F"):
                want = "raw" if fvecs[0][0] else "none"
                if rep != want:
                    self.fail(op, "representation", dict(detail, expected=want, actual=rep))


# ---------------------------------------------------------------------------------------------
# modes

FLAG_NAMES = {"T": True, "F": False}


def _scalar_vals(kind):
    return [[elem_value(kind, k)] for k in (1, 2, 3)], [elem_value(kind, 4)]


def _mode_eager(kind):
    def run(ctx):
        import jax.numpy as jnp

        ck = Checker(ctx, kind, "eager", 0)
        vals, dval = _scalar_vals(kind)
        lv = [to_lib(v[0], kind) for v in vals]
        ld = to_lib(dval[0], kind)
        paths = getitem_paths(kind, None)
        alphabet = {"T": True, "F": False, "aT": jnp.array(True), "aF": jnp.array(False)}
        for names in itertools.product(alphabet, repeat=3):
            fl = [alphabet[x] for x in names]
            errs = {}
            out = lib_ops(fl[0], fl[1], fl[2], lv[0], lv[1], lv[2], ld, errs, paths)
            fv = [[bool(np.asarray(f))] if not isinstance(f, bool) else [f] for f in fl]
            ck.compare(names, fv, vals, dval, out, errs, paths, any(len(x) > 1 for x in names))
        ctx.sample(dict(mode="eager", kind=kind, flags=["T", "aF", "aT"], value1=vals[0][0], value2=vals[1][0]))
    return run


def _mode_jit(kind, first, tier):
    """first operand kind fixed per case: 'T' | 'F' | 'tr' (static python bool or traced)."""
    def run(ctx):
        import jax
        import jax.numpy as jnp

        if kind == "pyscalar":
            kind_lib = "scalar"  # python scalars become traced 0-d arrays when passed to jit
        else:
            kind_lib = kind
        ck = Checker(ctx, kind, "jit", 0)
        vals, dval = _scalar_vals(kind)
        lv = [to_lib(v[0], kind_lib) for v in vals]
        ld = to_lib(dval[0], kind_lib)
        paths = getitem_paths(kind, None)
        thirds = ("T", "F", "tr") if tier == "thorough" else ("tr",)
        for second in ("T", "F", "tr"):
            for third in thirds:
                pattern = (first, second, third)
                errs = {}

                def fn(trflags, v1, v2, v3, d, pattern=pattern, errs=errs):
                    it = iter(trflags)
                    fl = [next(it) if p == "tr" else FLAG_NAMES[p] for p in pattern]
                    return lib_ops(fl[0], fl[1], fl[2], v1, v2, v3, d, errs, paths)

                jfn = jax.jit(fn)
                ctx.note("jit_compiles")
                ntr = sum(p == "tr" for p in pattern)
                for bits in itertools.product([True, False], repeat=ntr):
                    out = jfn(tuple(jnp.array(b) for b in bits), lv[0], lv[1], lv[2], ld)
                    it = iter(bits)
                    fv, names = [], []
                    for p in pattern:
                        if p == "tr":
                            b = next(it)
                            fv.append([b])
                            names.append("tr" + ("T" if b else "F"))
                        else:
                            fv.append([FLAG_NAMES[p]])
                            names.append(p)
                    ck.compare(tuple(names), fv, vals, dval, out, errs, paths, ntr > 0)
        ctx.sample(dict(mode="jit", kind=kind, pattern=[first, "tr", "tr"], note="tr = flag passed as jit argument"))
    return run


def _vector_inputs(kind, n):
    vals = [[elem_value(kind, k, i) for i in range(n)] for k in (1, 2, 3)]
    dval = [elem_value(kind, 4, i) for i in range(n)]
    lv = [to_lib(stack(v), kind) for v in vals]
    ld = to_lib(stack(dval), kind)
    return vals, dval, lv, ld


def _vecs(n):
    return list(itertools.product([True, False], repeat=n))


def _mode_vmap(kind, n):
    def run(ctx):
        import jax
        import jax.numpy as jnp

        ck = Checker(ctx, kind, "vmap", n)
        vals, dval, lv, ld = _vector_inputs(kind, n)
        paths = getitem_paths(kind, None)  # per element
        errs = {}

        def fn(f1, f2, f3, v1, v2, v3, d):
            return lib_ops(f1, f2, f3, v1, v2, v3, d, errs, paths)

        jfn = jax.jit(jax.vmap(fn))
        ctx.note("jit_compiles")
        # per-element getitem: handled by comparing element-wise with n=0 semantics is not possible in one
        # call, so the vmapped result (leading axis n) is compared element by element below.
        for a, b, c in itertools.product(_vecs(n), repeat=3):
            out = jfn(jnp.array(a), jnp.array(b), jnp.array(c), lv[0], lv[1], lv[2], ld)
            names = tuple("".join("T" if x else "F" for x in v) for v in (a, b, c))
            out2 = {k: v for k, v in out.items() if not k.startswith("getitem")}
            ck.compare(names, [list(a), list(b), list(c)], vals, dval, out2, errs, [], True)
            # getitem under vmap: every element is m1_i[p]
            for p in paths:
                key = gkey(p)
                ctx.ev(("vmap", kind, key, names), True)
                if key in errs:
                    ck.fail(key, f"exception:{type(errs[key]).__name__}", dict(flags=names, message=str(errs[key])[:300]))
                    continue
                gf, gv, _ = observe(out[key], n)
                ef = np.array(a, bool)
                if gf.shape != ef.shape or not np.array_equal(gf, ef):
                    ck.fail(key, "flag", dict(flags=names, expected=ef.tolist(), actual=gf.tolist()))
                    continue
                for i in range(n):
                    if a[i]:
                        w = same_value(gv, _index(vals[0][i], p), i)
                        if w:
                            ck.fail(key, w, dict(flags=names, element=i))
                            break
        ctx.sample(dict(mode="vmap", kind=kind, n=n, flags=["TF", "FT", "FF"][:3]))
    return run


def _triples_vectorized(n, tier, seed):
    vs = _vecs(n)
    if tier == "thorough":
        return list(itertools.product(vs, repeat=3))
    out = []
    if n == 2:
        thirds = [vs[(1 + seed) % 4], vs[(2 + seed) % 4]]  # TF / FT style mixed vectors
    else:
        thirds = [vs[(2 + seed) % 8]]
    for a in vs:
        for b in vs:
            for c in thirds:
                out.append((a, b, c))
    return out


def _mode_vectorized(kind, n, tier, seed, jit):
    def run(ctx):
        import jax
        import jax.numpy as jnp

        mode = "vectorized_jit" if jit else "vectorized"
        ck = Checker(ctx, kind, mode, n)
        vals, dval, lv, ld = _vector_inputs(kind, n)
        paths = getitem_paths(kind, n)
        if jit:
            errs_j = {}

            def fn(f1, f2, f3, v1, v2, v3, d):
                return lib_ops(f1, f2, f3, v1, v2, v3, d, errs_j, paths)

            jfn = jax.jit(fn)
            ctx.note("jit_compiles")
            triples = list(itertools.product(_vecs(n), repeat=3))
        else:
            triples = _triples_vectorized(n, tier, seed)
        for a, b, c in triples:
            if jit:
                errs = errs_j
                out = jfn(jnp.array(a), jnp.array(b), jnp.array(c), lv[0], lv[1], lv[2], ld)
            else:
                errs = {}
                out = lib_ops(jnp.array(a), jnp.array(b), jnp.array(c), lv[0], lv[1], lv[2], ld, errs, paths)
            names = tuple("".join("T" if x else "F" for x in v) for v in (a, b, c))
            ck.compare(names, [list(a), list(b), list(c)], vals, dval, out, errs, paths, True)
        ctx.sample(dict(mode=mode, kind=kind, n=n, flag_shape=[n], leaf_shapes=[list(np.shape(x)) for x in _leaves(lv[0])[0]]))
    return run


def cases(tier, seed):
    for kind in KINDS:
        yield Case(f"eager:{kind}", _mode_eager(kind), dict(mode="eager", kind=kind))
        for first in ("T", "F", "tr"):
            yield Case(f"jit:{kind}:{first}", _mode_jit(kind, first, tier), dict(mode="jit", kind=kind, first=first))
        if kind == "pyscalar":
            continue  # python scalars cannot be stacked into a vectorized mask
        for n in (2, 3):
            yield Case(f"vmap:{kind}:n{n}", _mode_vmap(kind, n), dict(mode="vmap", kind=kind, n=n))
            yield Case(f"vectorized:{kind}:n{n}", _mode_vectorized(kind, n, tier, seed, False), dict(mode="vectorized", kind=kind, n=n))
            yield Case(f"vectorized_jit:{kind}:n{n}", _mode_vectorized(kind, n, tier, seed, True), dict(mode="vectorized_jit", kind=kind, n=n))
