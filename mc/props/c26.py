"""C26 - Importance and SMC return properly weighted particles and unbiased evidence.

Enumerated: enumerable discrete targets (2-3 latent flip/categorical sites + 1-2 constrained sites,
observation in last or middle position) x proposals {none (internal/prior proposal), hand-written
guide over all latents, guide over a subset, exact-posterior guide, guide with a marginalised
auxiliary variable} x {Importance, ImportanceK(K)} x argument alphabet x observation alphabet.
For every combination the COMPLETE probability tree (randomness seam) of
  run_smc, log_marginal_likelihood_estimate, random_weighted, estimate_logpdf(v) for every latent
  tuple v, run_csmc(v) for every v, and ChangeTarget(alg, new target).run_smc / run_csmc.

Oracles (reference = mc/infref.Net, numpy float64):
 per leaf : every particle holds the target's constraints and all latents; particle score == log p;
            log-weight == log p(particle, obs) - log q(particle), q = guide density x internal
            proposal of the addresses the guide does not cover; lml == logsumexp(lw) - log K;
            csmc: last particle == retained choices, same weight formula;
            ChangeTarget: new weight == old weight + log p_new(particle) - log p_old(particle).
 tree sums: sum P == 1; particles are iid q; E[exp(lml)] == Z = sum_latents p(latents, obs);
            random_weighted returns exactly the unconstrained addresses, E[1/w | S] == 1/m(S) and
            E[exp(estimate_logpdf(v))] == m(v), m = the algorithm's own output distribution read off
            the random_weighted tree; K == 1: m == q and w == log q(S); exact-posterior proposal:
            m == exact posterior and every weight == log Z.
 Conjugate-Gaussian target: only the per-particle weight identity on the seam's value alphabet.
"""

from __future__ import annotations

import contextlib
import itertools
import math
import os
import re

import jax
import jax.numpy as jnp
import numpy as np
from scipy.stats import norm as sp_norm

import genjax
from genjax import ChoiceMap, Pytree, Target
from genjax import SelectionBuilder as S
from genjax.inference.smc import ChangeTarget, Importance, ImportanceK
from genjax._src.generative_functions.distributions.distribution import Distribution

from .. import seam
from ..common import Case, close
from ..harness import base_key
from ..infref import FLIP, Net, blame, cat, decode, logsumexp, read, vkey

PROPERTY = "C26"
LEVEL = "model_checking"
RULE = (
    "cases = target x proposal x algorithm (Importance / ImportanceK(K)); each case = complete probability trees of "
    "run_smc, log_marginal_likelihood_estimate, random_weighted, estimate_logpdf(v) and run_csmc(v) for every latent "
    "tuple v, ChangeTarget(run_smc, run_csmc) to a target with other observations/arguments, for every argument x "
    "observation alphabet entry; distinct = (target, proposal, algorithm, args, obs, op, leaf); non-trivial = leaf "
    "behind >= 1 branch point or a deterministic leaf whose weight is compared.  Collision inputs: proposal covering "
    "only part of the latents (rest from the internal proposal), observation *before* a latent, K >= 2 with "
    "resampling, retained particle whose value differs from every fresh particle, proposal == exact posterior, "
    "proposal with a marginalised auxiliary choice (random density estimate), ChangeTarget with other args."
)
ASSUMPTIONS = [
    "TFP single-site samplers are correct for the parameters they receive; distinct keys independent, equal keys comonotone",
    "density estimates refer to the algorithm's own output distribution m (GenSP): E[1/w|S]=1/m(S), E[exp(estimate_logpdf(v))]=m(v); m is the exact posterior only for the exact-posterior proposal (checked there)",
    "a proposal is either the documented `guide.marginal()` (library Marginal) or a harness-side SampleDistribution (RefProposal: simulate + trace score / assess) that isolates Importance from Marginal",
    "conjugate-Gaussian target: only the per-particle weight identity log w = log p(x,y) - log q(x) on the seam's 2-value continuous alphabet; E[exp(lml)] = Z over continuous randomness is mathematics, not explored",
    "estimate_logpdf of SMC algorithms / Marginal cannot be called through the public entry (beartype rejects the "
    "Target / scalar argument); after reporting that, the same trees are explored with only that annotation check "
    "bypassed (`__wrapped__`); such failures carry detail.hint_bypassed = true",
]
BOUNDS = {
    "quick": dict(targets=["ab (all proposals)", "mid (prior, partial, posterior)", "cat (prior, guide)"], proposals=["prior", "guide-marginal", "guide-ref", "partial-ref", "posterior-ref", "aux-marginal"], K=[1, 2], args=1, obs="all", max_paths=4096, gaussian="K<=2, n_cont=2"),
    "thorough": dict(targets=["ab", "mid", "cat", "abc"], proposals=["prior", "guide-marginal", "guide-ref", "partial-marginal", "partial-ref", "posterior-marginal", "posterior-ref", "aux-marginal"], K=[1, 2, 3], args=2, obs="all", max_paths=32768, gaussian="K<=3, n_cont=2"),
}
JOBS = {"quick": 8, "thorough": 16}


# ---------------------------------------------------------------------------------------------
# targets: real program + independent reference


@genjax.gen
def g_ab(p):
    a = genjax.flip(p) @ "a"
    b = genjax.flip(jnp.where(a, 0.7, 0.2)) @ "b"
    y = genjax.flip(jnp.where(a & b, 0.9, jnp.where(a | b, 0.5, 0.1))) @ "y"
    return y


def _ab_y(e, args):
    p = 0.9 if (e["a"] and e["b"]) else (0.5 if (e["a"] or e["b"]) else 0.1)
    return [p, 1 - p]


r_ab = Net(
    "ab",
    [
        ("a", FLIP, lambda e, args: [args[0], 1 - args[0]]),
        ("b", FLIP, lambda e, args: [0.7, 0.3] if e["a"] else [0.2, 0.8]),
        ("y", FLIP, _ab_y),
    ],
)


@genjax.gen
def g_mid(p):
    a = genjax.flip(p) @ "a"
    y = genjax.flip(jnp.where(a, 0.75, 0.3)) @ "y"
    b = genjax.flip(jnp.where(a ^ y, 0.85, 0.4)) @ "b"
    z = genjax.flip(jnp.where(b, 0.35, 0.8)) @ "z"
    return b


r_mid = Net(
    "mid",
    [
        ("a", FLIP, lambda e, args: [args[0], 1 - args[0]]),
        ("y", FLIP, lambda e, args: [0.75, 0.25] if e["a"] else [0.3, 0.7]),
        ("b", FLIP, lambda e, args: [0.85, 0.15] if (e["a"] != e["y"]) else [0.4, 0.6]),
        ("z", FLIP, lambda e, args: [0.35, 0.65] if e["b"] else [0.8, 0.2]),
    ],
)


@genjax.gen
def g_cat(p):
    c = genjax.categorical(probs=jnp.array([0.5, 0.3, 0.2])) @ "c"
    b = genjax.flip(jnp.array([0.2, 0.5, 0.85])[c]) @ "b"
    y = genjax.flip(jnp.where(b, p, jnp.array([0.9, 0.4, 0.1])[c])) @ "y"
    return y


r_cat = Net(
    "cat",
    [
        ("c", cat(3), lambda e, args: [0.5, 0.3, 0.2]),
        ("b", FLIP, lambda e, args: [[0.2, 0.5, 0.85][e["c"]], 1 - [0.2, 0.5, 0.85][e["c"]]]),
        ("y", FLIP, lambda e, args: [args[0], 1 - args[0]] if e["b"] else [[0.9, 0.4, 0.1][e["c"]], 1 - [0.9, 0.4, 0.1][e["c"]]]),
    ],
)


@genjax.gen
def g_abc(p):
    a = genjax.flip(p) @ "a"
    b = genjax.flip(jnp.where(a, 0.7, 0.2)) @ "b"
    c = genjax.flip(jnp.where(b, 0.35, 0.6)) @ "c"
    y = genjax.flip(jnp.where(a & c, 0.9, jnp.where(b | c, 0.45, 0.15))) @ "y"
    return y


def _abc_y(e, args):
    p = 0.9 if (e["a"] and e["c"]) else (0.45 if (e["b"] or e["c"]) else 0.15)
    return [p, 1 - p]


r_abc = Net(
    "abc",
    [
        ("a", FLIP, lambda e, args: [args[0], 1 - args[0]]),
        ("b", FLIP, lambda e, args: [0.7, 0.3] if e["a"] else [0.2, 0.8]),
        ("c", FLIP, lambda e, args: [0.35, 0.65] if e["b"] else [0.6, 0.4]),
        ("y", FLIP, _abc_y),
    ],
)


class Problem:
    def __init__(self, name, gf, net, obs_addrs, arg_alphabet):
        self.name, self.gf, self.net = name, gf, net
        self.obs_addrs = list(obs_addrs)
        self.latents = [a for a in net.addrs if a not in obs_addrs]
        self.arg_alphabet = arg_alphabet
        self.obs_alphabet = list(itertools.product(*[net.values[a] for a in obs_addrs]))
        self.kinds = {a: ("flip" if net.values[a] == FLIP else "cat") for a in net.addrs}

    # ---- reference quantities -------------------------------------------------------------
    def full(self, lat: dict, obs):
        asg = dict(lat)
        asg.update(zip(self.obs_addrs, obs))
        return asg

    def logp(self, lat, obs, args):
        return self.net.logp(self.full(lat, obs), args)

    def latent_tuples(self):
        return [dict(zip(self.latents, c)) for c in itertools.product(*[self.net.values[a] for a in self.latents])]

    def Z(self, obs, args):
        return sum(math.exp(self.logp(l, obs, args)) for l in self.latent_tuples())

    def logq_internal(self, lat, obs, args, addrs):
        """density of the internal proposal at the latent addresses `addrs` (ancestral sampling
        with everything else clamped) = product of their conditional terms"""
        return self.net.logterms(self.full(lat, obs), args, addrs)


PROBLEMS = {
    "ab": Problem("ab", g_ab, r_ab, ["y"], [(0.4,), (0.15,)]),
    "mid": Problem("mid", g_mid, r_mid, ["y", "z"], [(0.4,), (0.15,)]),
    "cat": Problem("cat", g_cat, r_cat, ["y"], [(0.4,), (0.15,)]),
    "abc": Problem("abc", g_abc, r_abc, ["y"], [(0.4,), (0.15,)]),
}


# ---------------------------------------------------------------------------------------------
# proposals: tabular guides (real gen fn built from a numpy table; reference reads the same table)


def _arb(n):
    """deterministic 'arbitrary' numbers in (0.12, 0.88)"""
    return [0.12 + 0.76 * (((7 * i + 3) % 11) / 10.0) for i in range(n)]


class Guide:
    """q(latents[covered] | obs) as conditional probability tables, chain rule in `covered` order.
    tables[i] has shape (n_obs, |L_0|, ..., |L_{i-1}|, |L_i|).  `aux`: an extra binary choice 'u'
    sampled first that shifts the tables (marginalised out by Marginal(selection=covered))."""

    def __init__(self, prob: Problem, covered, tables, aux=None):
        self.prob, self.covered, self.tables, self.aux = prob, list(covered), [np.asarray(t, dtype=np.float64) for t in tables], aux

    # ---- reference --------------------------------------------------------------------------
    def obs_index(self, obs):
        i = 0
        for a, v in zip(self.prob.obs_addrs, obs):
            i = i * len(self.prob.net.values[a]) + self.prob.net.values[a].index(v)
        return i

    def logq(self, lat, obs):
        """exact log density of the covered latents (aux marginalised)"""
        if self.aux is None:
            return self._logq_given(lat, obs, None)
        pu, _ = self.aux
        return logsumexp([math.log(pu) + self._logq_given(lat, obs, 0), math.log(1 - pu) + self._logq_given(lat, obs, 1)])

    def _logq_given(self, lat, obs, u):
        idx = (self.obs_index(obs),)
        out = 0.0
        for a, T in zip(self.covered, self.tables):
            j = self.prob.net.values[a].index(lat[a])
            pr = self._row(T[idx], u)
            out += math.log(pr[j])
            idx = idx + (j,)
        return out

    def _row(self, pr, u):
        if self.aux is None or u is None:
            return pr
        _, shift = self.aux
        pr = np.asarray(pr) ** (shift if u == 0 else 1.0 / shift)
        return pr / pr.sum()

    # ---- real gen fn --------------------------------------------------------------------------
    def gen_fn(self):
        prob, covered = self.prob, self.covered
        tables = [jnp.asarray(t, dtype=jnp.float32) for t in self.tables]
        aux = self.aux

        @genjax.gen
        def guide(target):
            oi = jnp.asarray(0, dtype=jnp.int32)
            for a in prob.obs_addrs:
                v = target.constraint[a]
                j = jnp.where(v, 0, 1) if prob.kinds[a] == "flip" else v
                oi = oi * len(prob.net.values[a]) + j
            if aux is not None:
                u = genjax.flip(aux[0]) @ "u"
                expo = jnp.where(u, aux[1], 1.0 / aux[1])
            idx = (oi,)
            for a, T in zip(covered, tables):
                pr = T[idx]
                if aux is not None:
                    pr = pr**expo
                    pr = pr / jnp.sum(pr)
                if prob.kinds[a] == "flip":
                    v = genjax.flip(pr[0]) @ a
                    j = jnp.where(v, 0, 1)
                else:
                    v = genjax.categorical(probs=pr) @ a
                    j = v
                idx = idx + (j,)
            return None

        return guide


def arbitrary_guide(prob: Problem, covered, aux=None):
    tables, shape = [], (len(prob.obs_alphabet),)
    off = 0
    for a in covered:
        n = len(prob.net.values[a])
        rows = int(np.prod(shape))
        flat = np.asarray(_arb(rows * n + off)[off:]).reshape(rows, n)
        if n == 2:
            flat[:, 1] = 1.0 - flat[:, 0]
        flat = flat / flat.sum(axis=1, keepdims=True)
        tables.append(flat.reshape(shape + (n,)))
        shape = shape + (n,)
        off += 3
    return Guide(prob, covered, tables, aux)


def posterior_guide(prob: Problem, args):
    """exact posterior p(latents | obs; args) by the chain rule from the reference joint table"""
    lat = prob.latents
    tables, shape = [], (len(prob.obs_alphabet),)
    for i, a in enumerate(lat):
        n = len(prob.net.values[a])
        T = np.zeros(shape + (n,))
        for oi, obs in enumerate(prob.obs_alphabet):
            for l in prob.latent_tuples():
                idx = (oi,) + tuple(prob.net.values[x].index(l[x]) for x in lat[: i + 1])
                T[idx] += math.exp(prob.logp(l, obs, args))
        T = T / T.sum(axis=-1, keepdims=True)
        tables.append(T)
        shape = shape + (n,)
    return Guide(prob, lat, tables)


@Pytree.dataclass
class RefProposal(Distribution):
    """harness-side SampleDistribution with exact weights (uses only simulate / assess of the guide)"""

    guide: genjax.GenerativeFunction

    def random_weighted(self, key, *args):
        tr = self.guide.simulate(key, args)
        return tr.get_score(), tr.get_choices()

    def estimate_logpdf(self, key, v, *args):
        sel = None
        score, _ = self.guide.assess(v, args)
        return score


PROPOSALS = {
    # name: (covered(prob) -> addresses | None, kind of wrapper, flavour)
    "prior": None,
    "guide-marginal": ("all", "marginal", "arb"),
    "guide-ref": ("all", "ref", "arb"),
    "partial-marginal": ("first", "marginal", "arb"),
    "partial-ref": ("first", "ref", "arb"),
    "posterior-marginal": ("all", "marginal", "post"),
    "posterior-ref": ("all", "ref", "post"),
    "aux-marginal": ("all", "marginal", "aux"),
}


def build_proposal(prob: Problem, pname, args):
    """-> (Guide | None, real q | None)"""
    spec = PROPOSALS[pname]
    if spec is None:
        return None, None
    cov, wrap, flavour = spec
    covered = prob.latents if cov == "all" else prob.latents[:1]
    if flavour == "post":
        g = posterior_guide(prob, args)
    elif flavour == "aux":
        g = arbitrary_guide(prob, covered, aux=(0.35, 2.0))
    else:
        g = arbitrary_guide(prob, covered)
    gf = g.gen_fn()
    if wrap == "ref":
        q = RefProposal(gf)
    elif flavour == "aux":
        sel = S[covered[0]]
        for a in covered[1:]:
            sel = sel | S[a]
        q = gf.marginal(selection=sel)
    else:
        q = gf.marginal()
    return g, q


# ---------------------------------------------------------------------------------------------


def _plain(msg):
    return re.sub(r"\x1b\[[0-9;]*m", "", msg)


def _val(v):
    if isinstance(v, bool):
        return jnp.asarray(v)
    if isinstance(v, int):
        return jnp.asarray(v, dtype=jnp.int32)
    return jnp.asarray(v, dtype=jnp.float32)


def _chm(addrs, vals):
    c = ChoiceMap.empty()
    for a, v in zip(addrs, vals):
        c = c | ChoiceMap.entry(v, a)
    return c


@contextlib.contextmanager
def hint_bypassed():
    """Replace the two beartype-wrapped methods whose `*args: tuple[Any, ...]` annotation rejects
    every legitimate call by their undecorated originals (same bodies)."""
    from genjax._src.inference import smc, sp

    saved = []
    for cls in (sp.Marginal, smc.SMCAlgorithm):
        f = cls.__dict__["estimate_logpdf"]
        raw = getattr(f, "__wrapped__", None)
        if raw is not None:
            saved.append((cls, f))
            setattr(cls, "estimate_logpdf", raw)
    try:
        yield
    finally:
        for cls, f in saved:
            setattr(cls, "estimate_logpdf", f)


def _is_hint(e):
    return isinstance(e, TypeError) and "violates type hint" in str(e) and "tuple[typing.Any, ...]" in str(e)


class Runner:
    """explores all ops of one (problem, proposal, algorithm) combination"""

    def __init__(self, ctx, prob: Problem, pname, algname, tier, seed):
        self.ctx, self.prob, self.pname, self.algname, self.tier, self.seed = ctx, prob, pname, algname, tier, seed
        self.K = 1 if algname == "Importance" else int(algname[len("ImportanceK"):])
        self.key = base_key(seed)
        self.max_paths = BOUNDS[tier]["max_paths"]
        self.all = prob.net.addrs + ["u", "zz"]
        self.kcls = "K=1" if self.K == 1 else "K>=2"
        self.jits = {}
        self.q_broken = False
        self.random_q = PROPOSALS[pname] is not None and PROPOSALS[pname][2] == "aux"
        self.bypass = False
        self.blocked = {}

    # ---- construction inside jit ----------------------------------------------------------
    def target(self, args, obs):
        return Target(self.prob.gf, args, _chm(self.prob.obs_addrs, obs))

    def alg(self, q, args, obs):
        t = self.target(args, obs)
        if self.algname == "Importance":
            return Importance(t, q)
        return ImportanceK(t, q, self.K)

    def coll(self, c):
        try:  # per-particle score through the collection's own accessor
            score = jnp.stack([c.get_particle(k).get_score() for k in range(self.K)])
        except Exception:
            score = None  # malformed collection (reported through the log-weight shape)
        try:
            lml = c.get_log_marginal_likelihood_estimate()
        except Exception:
            lml = None
        return dict(lw=c.get_log_weights(), lml=lml, score=score, choices=read(c.get_particles().get_choices(), self.all))

    # ---- reporting ----------------------------------------------------------------------------
    def icls(self, extra=None):
        qc = {"prior": "q=None"}.get(self.pname, "q=" + self.pname.split("-")[0] + ("[Marginal]" if self.pname.endswith("marginal") else "[Ref]"))
        s = f"{qc};{self.kcls}"
        return s + (";" + extra if extra else "")

    def fail(self, component, op, symptom, detail, extra=None):
        detail = dict(detail, hint_bypassed=self.bypass)
        if self.q_broken and not symptom.startswith("exception"):
            # the proposal (library Marginal) already fails its own density check: attribute there
            self.ctx.fail("Marginal.random_weighted", "as-proposal:" + op, self.kcls, symptom, detail)
        else:
            self.ctx.fail(component, op, self.icls(extra), symptom, detail)

    def explore(self, name, fn, *targs, component, op, ident):
        """jit once per op, explore the complete tree.  Returns paths or None."""
        ctx = self.ctx
        jname = (name, self.bypass)
        try:
            if jname not in self.jits:
                # a fresh function object per mode: jax caches traces per function identity
                self.jits[jname] = jax.jit((lambda *a: fn(*a)) if self.bypass else fn)
            jf = self.jits[jname]
            paths, stats = seam.explore(lambda: jf(self.key, *targs), max_paths=self.max_paths)
        except seam.TreeCapped as e:
            ctx.cap(f"{op} {ident}: {e}")
            ctx.ev((ident, op, "capped"), nontrivial=False)
            return None
        except Exception as e:
            ctx.ev((ident, op, "exception"), nontrivial=True)
            ctx.note("exceptions")
            if _is_hint(e):
                self.ctx.fail(blame(e, component), op, "args=non-tuple", f"exception:{type(e).__name__}", dict(ident, msg=_plain(str(e))[:300], hint_bypassed=self.bypass))
                return "hint"
            self.ctx.fail(blame(e, component), op, self.icls(), f"exception:{type(e).__name__}", dict(ident, msg=_plain(str(e))[:300], hint_bypassed=self.bypass))
            return None
        ctx.note("trees")
        ctx.note("paths", len(paths))
        ctx.transition(len(paths) + stats["branch_points"])
        tot = seam.total_prob(paths)
        if abs(tot - 1.0) > 1e-6:
            self.fail(component, op, "sum_prob", dict(ident, total=tot))
        return paths

    # ---- reference --------------------------------------------------------------------------
    def logq(self, guide, lat, obs, args):
        """log density of the effective proposal of all latents"""
        prob = self.prob
        if guide is None:
            return prob.logq_internal(lat, obs, args, prob.latents)
        rest = [a for a in prob.latents if a not in guide.covered]
        return guide.logq(lat, obs) + prob.logq_internal(lat, obs, args, rest)

    # ---- particle collection checks ---------------------------------------------------------
    def check_collection(self, res, obs, args, guide, component, op, ident, bad, old=None, retained=None, n=None):
        """per-leaf oracles on one ParticleCollection read-out; appends to `bad[symptom]`.
        Returns list of latent dicts (or None if unreadable)."""
        prob = self.prob
        K = self.K if n is None else n
        lw = np.atleast_1d(np.asarray(res["lw"], dtype=np.float64))
        sc = None if res.get("score") is None else np.atleast_1d(np.asarray(res["score"], dtype=np.float64))
        if lw.shape != (K,):
            bad.setdefault("log_weights_shape", []).append(dict(shape=list(np.asarray(res["lw"]).shape), expected=[K]))
            return None
        lats, ref_lw = [], []
        for k in range(K):
            try:
                got = decode(self.all, res["choices"], index=k)
            except Exception as e:  # a particle axis is missing
                bad.setdefault("particle_shape", []).append(dict(msg=str(e)[:200]))
                return None
            lat = {a: got[a] for a in prob.latents if a in got}
            if set(got) != set(prob.net.addrs):
                bad.setdefault("particle_addresses", []).append(dict(particle=k, got=sorted(got), expected=prob.net.addrs))
                return None
            if tuple(got[a] for a in prob.obs_addrs) != tuple(obs):
                bad.setdefault("constraint", []).append(dict(particle=k, got=[got[a] for a in prob.obs_addrs], obs=list(obs)))
            lp = prob.logp(lat, obs, args)
            if sc is not None and sc.shape == (K,) and not close(sc[k], lp):
                bad.setdefault("particle_score", []).append(dict(particle=k, latents=lat, impl=float(sc[k]), ref=lp))
            lats.append(lat)
            if not self.random_q:
                want = lp - self.logq(guide, lat, obs, args)
                ref_lw.append(want)
                if not close(lw[k], want):
                    which = "log_weight" if retained is None or k < K - 1 else "log_weight_retained"
                    bad.setdefault(which, []).append(dict(particle=k, latents=lat, impl=float(lw[k]), ref=want, log_p=lp, log_q=lp - want))
        if res.get("lml") is not None and not close(float(res["lml"]), logsumexp(lw) - math.log(K)):
            bad.setdefault("lml_formula", []).append(dict(impl=float(res["lml"]), ref=logsumexp(lw) - math.log(K), lw=lw.tolist()))
        if retained is not None and lats[-1] != retained:
            bad.setdefault("retained_particle", []).append(dict(last=lats[-1], retained=retained, all=lats))
        return lats

    def flush(self, bad, component, op, ident, n_paths):
        for symptom, items in bad.items():
            self.fail(component, op, symptom, dict(ident, n_bad=len(items), n_paths=n_paths, first=items[:2]))

    # ---- the ops ------------------------------------------------------------------------------
    def run(self):
        ctx, prob = self.ctx, self.prob
        r = self.seed % len(prob.arg_alphabet)
        arg_alphabet = (prob.arg_alphabet[r:] + prob.arg_alphabet[:r])[: BOUNDS[self.tier]["args"]]
        with seam.seam():
            for args in arg_alphabet:
                guide, q = build_proposal(prob, self.pname, args)
                self.jits = {} if PROPOSALS[self.pname] and PROPOSALS[self.pname][2] == "post" else self.jits
                self.q_broken = False
                if q is not None and self.pname.endswith("marginal"):
                    self.check_proposal(guide, q, args)
                for oi, obs in enumerate(prob.obs_alphabet):
                    self.run_one(guide, q, args, obs, first=(oi == 0 and args == arg_alphabet[0]))

    def check_proposal(self, guide, q, args):
        """the library Marginal used as proposal: its weight must be the guide's exact density
        (selection == all) / satisfy the SPI identity (auxiliary choice)"""
        prob = self.prob
        for obs in prob.obs_alphabet[:1]:
            ident = dict(target=prob.name, proposal=self.pname, args=list(args), obs=list(obs))
            jobs, jargs = tuple(_val(v) for v in obs), tuple(_val(a) for a in args)

            def f(key, args, obs):
                w, chm = q.random_weighted(key, self.target(args, obs))
                return dict(w=w, choices=read(chm, self.all))

            paths = self.explore("q.rw", f, jargs, jobs, component="Marginal.random_weighted", op="proposal", ident=ident)
            if not isinstance(paths, list):
                self.q_broken = True
                return
            mass, inv, badw = {}, {}, []
            for i, p in enumerate(paths):
                got = decode(self.all, p.result["choices"])
                self.ctx.ev((ident, "q.rw", i), nontrivial=p.n_branch > 0)
                k = vkey(got)
                w = float(p.result["w"])
                mass[k] = mass.get(k, 0.0) + p.prob
                inv[k] = inv.get(k, 0.0) + p.prob * math.exp(-w)
                if set(got) == set(guide.covered) and not self.random_q and not close(w, guide.logq(got, obs)):
                    badw.append(dict(sample=got, w=w, log_q_ref=guide.logq(got, obs)))
            bad_inv = [dict(sample=list(k), E_inv_w=inv[k] / mass[k], expected=1.0 / math.exp(guide.logq(dict(k), obs)))
                       for k in mass if set(dict(k)) == set(guide.covered) and not close(inv[k] / mass[k], 1.0 / math.exp(guide.logq(dict(k), obs)))]
            icls = "algorithm=none;selection=" + ("partial-influenced" if self.random_q else "all")
            if badw:
                self.q_broken = True
                self.ctx.fail("Marginal.random_weighted", "proposal", icls, "weight_exact", dict(ident, n_bad=len(badw), first=badw[:2]))
            if bad_inv:
                self.q_broken = True
                self.ctx.fail("Marginal.random_weighted", "proposal", icls, "E[1/w|s]", dict(ident, n_bad=len(bad_inv), first=bad_inv[:2]))

    def run_one(self, guide, q, args, obs, first):
        ctx, prob, K = self.ctx, self.prob, self.K
        ident = dict(target=prob.name, proposal=self.pname, algorithm=self.algname, args=list(args), obs=list(obs))
        jargs, jobs = tuple(_val(a) for a in args), tuple(_val(v) for v in obs)
        cname = "Importance" if self.algname == "Importance" else "ImportanceK"
        Z = prob.Z(obs, args)
        lat_tuples = prob.latent_tuples()
        self.bypass = False

        # ---------- run_smc
        def f_smc(key, args, obs):
            return self.coll(self.alg(q, args, obs).run_smc(key))

        paths = self.explore("run_smc", f_smc, jargs, jobs, component=f"{cname}.run_smc", op="run_smc", ident=ident)
        if isinstance(paths, list):
            bad, mass, ez = {}, {}, 0.0
            for i, p in enumerate(paths):
                ctx.ev((ident, "run_smc", i), nontrivial=p.n_branch > 0 or not self.random_q)
                lats = self.check_collection(p.result, obs, args, guide, f"{cname}.run_smc", "run_smc", ident, bad)
                ctx.state((ident, "run_smc", repr(lats), np.round(np.atleast_1d(p.result["lw"]), 4).tolist()))
                ctx.outcome((repr(lats), np.round(np.atleast_1d(p.result["lw"]), 4).tolist()))
                ez += p.prob * math.exp(float(p.result["lml"]))
                if lats is not None:
                    k = tuple(vkey(l, prob.latents) for l in lats)
                    mass[k] = mass.get(k, 0.0) + p.prob
            self.flush(bad, f"{cname}.run_smc", "run_smc", ident, len(paths))
            if "particle_addresses" not in bad and "log_weights_shape" not in bad:
                bd = []
                for combo in itertools.product(lat_tuples, repeat=K):
                    want = math.exp(sum(self.logq(guide, l, obs, args) for l in combo))
                    k = tuple(vkey(l, prob.latents) for l in combo)
                    if abs(mass.get(k, 0.0) - want) > 1e-5:
                        bd.append(dict(particles=[list(l.values()) for l in combo], impl=mass.get(k, 0.0), ref=want))
                ctx.note("distribution_checks")
                if bd:
                    self.fail(f"{cname}.run_smc", "run_smc", "particle_distribution", dict(ident, n_bad=len(bd), first=bd[:3]))
            ctx.note("expectations")
            if not close(ez, Z):
                self.fail(f"{cname}.run_smc", "run_smc", "E[exp(lml)]", dict(ident, impl=ez, Z=Z))
            if first:
                p0 = paths[0]
                ctx.sample(dict(ident, op="run_smc", paths=len(paths), Z=Z, E_exp_lml=ez,
                                first_leaf=dict(prob=p0.prob, log_weights=np.atleast_1d(p0.result["lw"]).tolist(), particles=[decode(self.all, p0.result["choices"], index=k) for k in range(K)] if np.ndim(p0.result["lw"]) else None)))

        # ---------- log_marginal_likelihood_estimate (own key handling)
        def f_lml(key, args, obs):
            return self.alg(q, args, obs).log_marginal_likelihood_estimate(key)

        paths = None
        if self.tier == "thorough" or self.pname in ("prior", "guide-ref", "guide-marginal"):
            paths = self.explore("lml", f_lml, jargs, jobs, component="SMCAlgorithm.log_marginal_likelihood_estimate", op="log_marginal_likelihood_estimate", ident=ident)
        if isinstance(paths, list):
            ez = sum(p.prob * math.exp(float(p.result)) for p in paths)
            for i, p in enumerate(paths):
                ctx.ev((ident, "lml", i), nontrivial=p.n_branch > 0)
            ctx.note("expectations")
            if not close(ez, Z):
                self.fail("SMCAlgorithm.log_marginal_likelihood_estimate", "log_marginal_likelihood_estimate", "E[exp(lml)]", dict(ident, impl=ez, Z=Z))

        # ---------- random_weighted
        def f_rw(key, args, obs):
            w, chm = self.alg(q, args, obs).random_weighted(key, self.target(args, obs))
            return dict(w=w, choices=read(chm, self.all))

        m = None
        paths = self.explore("rw", f_rw, jargs, jobs, component="SMCAlgorithm.random_weighted", op="random_weighted", ident=ident)
        if isinstance(paths, list):
            mass, inv, bad_addr, bad_w = {}, {}, [], []
            for i, p in enumerate(paths):
                got = decode(self.all, p.result["choices"])
                w = float(p.result["w"])
                ctx.ev((ident, "rw", i), nontrivial=p.n_branch > 0)
                ctx.state((ident, "rw", vkey(got), round(w, 4)))
                if set(got) != set(prob.latents):
                    bad_addr.append(dict(returned=sorted(got), expected=prob.latents))
                    continue
                k = vkey(got, prob.latents)
                mass[k] = mass.get(k, 0.0) + p.prob
                inv[k] = inv.get(k, 0.0) + p.prob * math.exp(-w)
                if K == 1 and not self.random_q and not close(w, self.logq(guide, got, obs, args)):
                    bad_w.append(dict(sample=got, w=w, log_q=self.logq(guide, got, obs, args)))
            comp = "SMCAlgorithm.random_weighted"
            if bad_addr:
                self.fail(comp, "random_weighted", "addresses", dict(ident, n_bad=len(bad_addr), first=bad_addr[:2]))
            else:
                m = mass
                bi = [dict(sample=list(k), E_inv_w=inv[k] / mass[k], expected=1.0 / mass[k]) for k in mass if not close(inv[k] / mass[k], 1.0 / mass[k])]
                ctx.note("conditional_expectations", len(mass))
                if bi:
                    self.fail(comp, "random_weighted", "E[1/w|S]", dict(ident, n_bad=len(bi), first=bi[:3]))
                if bad_w:
                    self.fail(comp, "random_weighted", "weight_exact(K=1)", dict(ident, n_bad=len(bad_w), first=bad_w[:3]))
                if K == 1:
                    bq = [dict(sample=l, m=mass.get(vkey(l, prob.latents), 0.0), q=math.exp(self.logq(guide, l, obs, args))) for l in lat_tuples
                          if abs(mass.get(vkey(l, prob.latents), 0.0) - math.exp(self.logq(guide, l, obs, args))) > 1e-5]
                    if bq:
                        self.fail(comp, "random_weighted", "output_distribution(K=1)", dict(ident, n_bad=len(bq), first=bq[:3]))
                if PROPOSALS[self.pname] and PROPOSALS[self.pname][2] == "post":
                    bp = []
                    for l in lat_tuples:
                        post = math.exp(prob.logp(l, obs, args)) / Z
                        if abs(mass.get(vkey(l, prob.latents), 0.0) - post) > 1e-5:
                            bp.append(dict(sample=l, m=mass.get(vkey(l, prob.latents), 0.0), posterior=post))
                    bw = [dict(w=float(p.result["w"]), sample=decode(self.all, p.result["choices"])) for p in paths
                          if not close(float(p.result["w"]), prob.logp(decode(self.all, p.result["choices"]), obs, args) - math.log(Z))]
                    ctx.note("exact_posterior_checks")
                    if bp:
                        self.fail(comp, "random_weighted", "exact_posterior", dict(ident, n_bad=len(bp), first=bp[:3]))
                    if bw:
                        self.fail(comp, "random_weighted", "exact_posterior_weight", dict(ident, n_bad=len(bw), first=bw[:3]))

        # ---------- estimate_logpdf(v), run_csmc(v): public entry first, then with the hint bypassed
        def f_el(key, args, obs, v):
            return self.alg(q, args, obs).estimate_logpdf(key, _chm(prob.latents, v), self.target(args, obs))

        def f_csmc(key, args, obs, v):
            return self.coll(self.alg(q, args, obs).run_csmc(key, _chm(prob.latents, v)))

        def do_el():
            for l in lat_tuples:
                jv = tuple(_val(l[a]) for a in prob.latents)
                idv = dict(ident, v=l)
                paths = self.explore("el", f_el, jargs, jobs, jv, component="SMCAlgorithm.estimate_logpdf", op="estimate_logpdf", ident=idv)
                if paths == "hint":
                    return True
                if not isinstance(paths, list):
                    return False
                e = sum(p.prob * math.exp(float(p.result)) for p in paths)
                for i, p in enumerate(paths):
                    ctx.ev((idv, "el", i, self.bypass), nontrivial=True)
                    ctx.state((idv, "el", round(float(p.result), 4)))
                ctx.note("expectations")
                if m is not None:
                    mv = m.get(vkey(l, prob.latents), 0.0)
                    if not close(e, mv):
                        self.fail("SMCAlgorithm.estimate_logpdf", "estimate_logpdf", "E[exp(estimate)]", dict(idv, impl=e, m_v=mv, n_paths=len(paths)))
            return False

        def do_csmc():
            for l in lat_tuples:
                jv = tuple(_val(l[a]) for a in prob.latents)
                idv = dict(ident, retained=l)
                paths = self.explore("csmc", f_csmc, jargs, jobs, jv, component=f"{cname}.run_csmc", op="run_csmc", ident=idv)
                if paths == "hint":
                    return True
                if not isinstance(paths, list):
                    return False
                bad, mass = {}, {}
                for i, p in enumerate(paths):
                    ctx.ev((idv, "csmc", i, self.bypass), nontrivial=True)
                    lats = self.check_collection(p.result, obs, args, guide, f"{cname}.run_csmc", "run_csmc", idv, bad, retained=l)
                    ctx.state((idv, "csmc", repr(lats), np.round(np.atleast_1d(p.result["lw"]), 4).tolist()))
                    if lats is not None:
                        k = tuple(vkey(x, prob.latents) for x in lats[:-1])
                        mass[k] = mass.get(k, 0.0) + p.prob
                self.flush(bad, f"{cname}.run_csmc", "run_csmc", idv, len(paths))
                if not any(x in bad for x in ("particle_addresses", "log_weights_shape", "particle_shape")):
                    bd = []
                    for combo in itertools.product(lat_tuples, repeat=K - 1):
                        want = math.exp(sum(self.logq(guide, x, obs, args) for x in combo))
                        k = tuple(vkey(x, prob.latents) for x in combo)
                        if abs(mass.get(k, 0.0) - want) > 1e-5:
                            bd.append(dict(particles=[list(x.values()) for x in combo], impl=mass.get(k, 0.0), ref=want))
                    if bd:
                        self.fail(f"{cname}.run_csmc", "run_csmc", "particle_distribution", dict(idv, n_bad=len(bd), first=bd[:3]))
            return False

        for op in (do_el, do_csmc):
            # the public entry is blocked by the annotation (reported once): explore the same trees behind it
            if self.blocked.get(op.__name__) or op():
                self.blocked[op.__name__] = True
                self.bypass = True
                ctx.note("hint_bypass_used")
                with hint_bypassed():
                    op()
                self.bypass = False

        # ---------- ChangeTarget: other observation values and other arguments
        others = [(o, args) for o in prob.obs_alphabet if o != obs][:1]
        a2 = next(a for a in prob.arg_alphabet if a != args)
        others.append((obs, a2))

        def f_ct(key, args, obs, args2, obs2):
            alg = self.alg(q, args, obs)
            old = alg.run_smc(key)
            new = ChangeTarget(alg, self.target(args2, obs2)).run_smc(key)
            return dict(old=self.coll(old), new=self.coll(new))

        for obs2, args2 in others:
            idc = dict(ident, new_obs=list(obs2), new_args=list(args2))
            jargs2, jobs2 = tuple(_val(a) for a in args2), tuple(_val(v) for v in obs2)
            paths = self.explore("ct", f_ct, jargs, jobs, jargs2, jobs2, component="ChangeTarget.run_smc", op="ChangeTarget.run_smc", ident=idc)
            if not isinstance(paths, list):
                continue
            Z2 = prob.Z(obs2, args2)
            bad, ez = {}, 0.0
            for i, p in enumerate(paths):
                ctx.ev((idc, "ct", i), nontrivial=p.n_branch > 0 or not self.random_q)
                old, new = p.result["old"], p.result["new"]
                ez += p.prob * math.exp(float(new["lml"]))
                olw = np.atleast_1d(np.asarray(old["lw"], dtype=np.float64))
                nlw = np.atleast_1d(np.asarray(new["lw"], dtype=np.float64))
                ctx.state((idc, "ct", np.round(nlw, 4).tolist()))
                if nlw.shape != (K,) or olw.shape != (K,):
                    bad.setdefault("log_weights_shape", []).append(dict(new=list(nlw.shape), old=list(olw.shape)))
                    continue
                for k in range(K):
                    try:
                        go, gn = decode(self.all, old["choices"], index=k), decode(self.all, new["choices"], index=k)
                    except Exception as e:
                        bad.setdefault("particle_shape", []).append(dict(msg=str(e)[:200]))
                        break
                    if set(gn) != set(prob.net.addrs) or set(go) != set(prob.net.addrs):
                        bad.setdefault("particle_addresses", []).append(dict(new=sorted(gn), old=sorted(go)))
                        break
                    lo, ln = {a: go[a] for a in prob.latents}, {a: gn[a] for a in prob.latents}
                    if ln != lo:
                        bad.setdefault("latents_changed", []).append(dict(old=lo, new=ln))
                        continue
                    if tuple(gn[a] for a in prob.obs_addrs) != tuple(obs2):
                        bad.setdefault("constraint", []).append(dict(got=[gn[a] for a in prob.obs_addrs], obs=list(obs2)))
                    want = olw[k] + prob.logp(ln, obs2, args2) - prob.logp(lo, obs, args)
                    if not close(nlw[k], want):
                        bad.setdefault("reweight", []).append(dict(particle=k, latents=ln, old_w=float(olw[k]), new_w=float(nlw[k]), ref=float(want)))
                    if new.get("score") is not None and not close(np.atleast_1d(new["score"])[k], prob.logp(ln, obs2, args2)):
                        bad.setdefault("particle_score", []).append(dict(particle=k, latents=ln, impl=float(np.atleast_1d(new["score"])[k]), ref=prob.logp(ln, obs2, args2)))
            self.flush(bad, "ChangeTarget.run_smc", "ChangeTarget.run_smc", idc, len(paths))
            ctx.note("expectations")
            if not close(ez, Z2):
                self.fail("ChangeTarget.run_smc", "ChangeTarget.run_smc", "E[exp(lml)]", dict(idc, impl=ez, Z_new=Z2))



        # ---------- ChangeTarget to a target that observes only a SUBSET of the previously observed
        # addresses: the evidence estimate must be unbiased for the NEW target's normalizing constant
        if len(prob.obs_addrs) >= 2:
            keep = prob.obs_addrs[:1]
            others_addrs = [a for a in prob.net.addrs if a not in keep]

            def f_ct_sub(key, args, obs, obs_keep):
                alg = self.alg(q, args, obs)
                t2 = Target(prob.gf, args, _chm(keep, obs_keep))
                new = ChangeTarget(alg, t2).run_smc(key)
                return dict(lw=new.get_log_weights(), lml=new.get_log_marginal_likelihood_estimate(), choices=read(new.get_particles().get_choices(), self.all))

            for okv in prob.net.values[keep[0]]:
                ids = dict(ident, new_obs_subset={keep[0]: okv})
                paths = self.explore("ct_sub", f_ct_sub, jargs, jobs, (_val(okv),), component="ChangeTarget.run_smc", op="ChangeTarget.run_smc", ident=ids)
                if not isinstance(paths, list):
                    continue
                Zs = 0.0
                for combo in itertools.product(*[prob.net.values[a] for a in others_addrs]):
                    asg = dict(zip(others_addrs, combo))
                    asg[keep[0]] = okv
                    Zs += math.exp(prob.net.logp(asg, args))
                ez, bad = 0.0, {}
                for i, p in enumerate(paths):
                    ctx.ev((ids, "ct_sub", i), nontrivial=True)
                    ez += p.prob * math.exp(float(p.result["lml"]))
                    for k in range(K):
                        try:
                            g = decode(self.all, p.result["choices"], index=k)
                        except Exception as e:
                            bad.setdefault("particle_shape", []).append(dict(msg=str(e)[:200]))
                            break
                        if g.get(keep[0]) != okv:
                            bad.setdefault("constraint", []).append(dict(got=g.get(keep[0]), obs=okv))
                self.flush(bad, "ChangeTarget.run_smc", "ChangeTarget.run_smc", ids, len(paths))
                ctx.note("expectations")
                if not close(ez, Zs):
                    self.fail("ChangeTarget.run_smc", "ChangeTarget.run_smc", "E[exp(lml)]:subset_target", dict(ids, impl=ez, Z_new=Zs))


def _run(tname, pname, algname, tier, seed):
    def run(ctx):
        Runner(ctx, PROBLEMS[tname], pname, algname, tier, seed).run()

    return run


# ---------------------------------------------------------------------------------------------
# conjugate Gaussian target: per-particle weight identity on the value alphabet


@genjax.gen
def g_gauss(s):
    x = genjax.normal(0.0, 1.0) @ "x"
    y = genjax.normal(x, s) @ "y"
    return y


@genjax.gen
def g_gauss_post(target):
    y = target.constraint["y"]
    s = target.args[0]
    prec = 1.0 + 1.0 / (s * s)
    x = genjax.normal((y / (s * s)) / prec, jnp.sqrt(1.0 / prec)) @ "x"
    return x


def _run_gauss(pname, tier, seed):
    def run(ctx):
        key = base_key(seed)
        Ks = [1, 2] if tier == "quick" else [1, 2, 3]
        q = None if pname == "prior" else (RefProposal(g_gauss_post) if pname == "posterior-ref" else g_gauss_post.marginal())
        with seam.seam(n_cont=2):
            for K in Ks:
                for use_k in ([False, True] if K == 1 else [True]):

                    def f(key, s, y):
                        t = Target(g_gauss, (s,), ChoiceMap.entry(y, "y"))
                        alg = ImportanceK(t, q, K) if use_k else Importance(t, q)
                        c = alg.run_smc(key)
                        ch = c.get_particles().get_choices()
                        return dict(lw=c.get_log_weights(), x=ch["x"], y=ch["y"], score=c.get_particles().get_score())

                    jf = jax.jit(f)
                    cname = "ImportanceK" if use_k else "Importance"
                    for s in (0.5, 1.5):
                        for y in (0.7, -1.2):
                            ident = dict(target="gauss", proposal=pname, algorithm=cname, K=K, s=s, y=y)
                            try:
                                paths, stats = seam.explore(lambda: jf(key, jnp.float32(s), jnp.float32(y)), max_paths=4096)
                            except Exception as e:
                                ctx.ev((ident, "exc"))
                                ctx.fail(blame(e, f"{cname}.run_smc"), "run_smc", "gaussian", f"exception:{type(e).__name__}", dict(ident, msg=_plain(str(e))[:300]))
                                continue
                            ctx.note("trees")
                            ctx.note("paths", len(paths))
                            ctx.transition(len(paths) + stats["branch_points"])
                            bad = {}
                            xs_seen = set()
                            for i, p in enumerate(paths):
                                ctx.ev((ident, i), nontrivial=p.n_branch > 0)
                                lw = np.atleast_1d(np.asarray(p.result["lw"], dtype=np.float64))
                                xs = np.atleast_1d(np.asarray(p.result["x"], dtype=np.float64))
                                ys = np.atleast_1d(np.asarray(p.result["y"], dtype=np.float64))
                                ctx.state((ident, np.round(xs, 4).tolist()))
                                if lw.shape != (K,) or xs.shape != (K,):
                                    bad.setdefault("log_weights_shape", []).append(dict(lw=list(lw.shape), x=list(xs.shape)))
                                    continue
                                for k in range(K):
                                    xs_seen.add(round(float(xs[k]), 5))
                                    if not close(ys[k], y):
                                        bad.setdefault("constraint", []).append(dict(y=float(ys[k]), obs=y))
                                    lp = sp_norm.logpdf(xs[k], 0.0, 1.0) + sp_norm.logpdf(y, xs[k], s)
                                    if pname == "prior":
                                        lq = sp_norm.logpdf(xs[k], 0.0, 1.0)
                                    else:
                                        prec = 1.0 + 1.0 / s**2
                                        lq = sp_norm.logpdf(xs[k], (y / s**2) / prec, math.sqrt(1.0 / prec))
                                    if not close(lw[k], lp - lq):
                                        bad.setdefault("log_weight", []).append(dict(x=float(xs[k]), impl=float(lw[k]), ref=float(lp - lq)))
                                    if pname != "prior" and not close(lp - lq, sp_norm.logpdf(y, 0.0, math.sqrt(1.0 + s * s))):
                                        raise AssertionError("reference posterior is not conjugate-exact")
                            if len(xs_seen) < 2:
                                ctx.cap(f"gaussian alphabet not explored {ident}")
                            for symptom, items in bad.items():
                                comp, ic = f"{cname}.run_smc", f"gaussian;q={'None' if q is None else pname};K={'1' if K == 1 else '>=2'}"
                                if pname == "posterior-marginal" and symptom == "log_weight":
                                    comp, ic = "Marginal.random_weighted", "K=1" if K == 1 else "K>=2"
                                    ctx.fail(comp, "as-proposal:run_smc", ic, symptom, dict(ident, n_bad=len(items), first=items[:2]))
                                else:
                                    ctx.fail(comp, "run_smc", ic, symptom, dict(ident, n_bad=len(items), first=items[:2]))
                            if K == Ks[0] and s == 0.5 and y == 0.7:
                                ctx.sample(dict(ident, paths=len(paths), x_values=sorted(xs_seen)))

    return run


# ---------------------------------------------------------------------------------------------


def _plan(tier):
    if tier == "quick":
        I, K2 = "Importance", "ImportanceK2"
        plan = [("ab", pn, a) for pn in ("prior", "guide-marginal", "partial-ref") for a in (I, K2)]
        plan += [("ab", "guide-ref", K2), ("ab", "posterior-ref", K2), ("ab", "aux-marginal", K2), ("ab", "prior", "ImportanceK1")]
        plan += [("mid", "prior", K2), ("mid", "partial-ref", I), ("mid", "posterior-ref", K2)]
        plan += [("cat", "prior", K2), ("cat", "guide-ref", I)]
        return plan
    plan = []
    for t in ("ab", "mid", "cat", "abc"):
        for pn in PROPOSALS:
            for a in ("Importance", "ImportanceK1", "ImportanceK2", "ImportanceK3"):
                if t == "abc" and a == "ImportanceK3":
                    continue
                plan.append((t, pn, a))
    return plan


def cases(tier, seed):
    only = os.environ.get("VERIF_ONLY")
    for t, pn, a in _plan(tier):
        cid = f"{t}/{pn}/{a}"
        if only and only not in cid:
            continue
        yield Case(cid, _run(t, pn, a, tier, seed), dict(target=t, proposal=pn, algorithm=a, latents=PROBLEMS[t].latents, observed=PROBLEMS[t].obs_addrs))
    for pn in ("prior", "posterior-ref", "posterior-marginal"):
        cid = f"gauss/{pn}"
        if only and only not in cid:
            continue
        yield Case(cid, _run_gauss(pn, tier, seed), dict(target="gauss", proposal=pn))
