"""C12 - scan and its derived combinators match the documented Python loops.

Enumerated: kernels (carry-dependent, scanned-input-dependent, nested static call first,
deterministic, choice-independent carry) x lengths {0,1,2,3} x with/without scanned inputs;
accumulate, reduce, iterate, iterate_final.  Operations: complete simulate tree, assess over all
assignments, importance over partial constraints, and an explicit-state search over histories mixing
update, Regenerate and IndexRequest edits at first / middle / last positions.  Oracle: the documented
Python loops transcribed verbatim in the reference (iteration i's choices under index i, score = sum of
kernel scores, final carry and stacked outputs), re-evaluated after every edit."""

from __future__ import annotations

from ..common import Case
from .. import grammar
from ..grammar import Derived, Flip, Scan, accf, component_of, kern, kern_chain, kern_det, kern_indep, nested_first, stepf, two, NormalD, wrap

PROPERTY = "C12"
LEVEL = "model_checking"
RULE = (
    "scan / accumulate / reduce / iterate / iterate_final programs x lengths {0..3} x ops (simulate tree, assess, "
    "importance, BFS over update / Regenerate / IndexRequest histories at every index); distinct = (program, "
    "predecessor, request, successor assignment); non-trivial = reached by an edit or path with >= 1 choice"
)
ASSUMPTIONS = [
    "reference = the documented Python loops (mc/grammar.py Scan.ref / Derived.ref)",
    "IndexRequest on scan is explored for kernels whose carry does not depend on their choices (library domain: the edit asserts an unchanged carry)",
]
BOUNDS = {"quick": dict(depth=2, lengths=[0, 1, 3]), "thorough": dict(depth=3, lengths=[0, 1, 2, 3])}
JOBS = {"quick": 14, "thorough": 16}


def programs(tier):
    f = Flip()
    out = []
    for n in BOUNDS[tier]["lengths"]:
        out.append((Scan(kern(f), n, xs=True), ("update", "regenerate")))
    out.append((Scan(kern(f), 3, xs=False), ("update", "regenerate")))
    out.append((Scan(kern_indep(f), 3, xs=True), ("update", "index")))
    out.append((Scan(kern_indep(two(f, f)), 2, xs=False), ("update", "index", "regenerate")))
    out.append((Scan(kern_chain(f), 3, xs=True), ("update", "index")))
    out.append((Scan(kern(nested_first(f)), 2, xs=False), ("update",)))
    out.append((Scan(kern_det(), 3, xs=True), ("update",)))
    out.append((Scan(kern(NormalD()), 2, xs=True), ("update", "regenerate")))
    for w in ("iterate", "iterate_final"):
        out.append((Derived(w, stepf(f), 2), ("update", "regenerate")))
    for w in ("accumulate", "reduce"):
        out.append((Derived(w, accf(f), 2), ("update", "regenerate")))
    if tier == "thorough":
        out.append((Scan(kern(two(f, f)), 2, xs=True), ("update", "regenerate")))
        out.append((Scan(kern(wrap(grammar.Vmap(f, 2, 0))), 2, xs=True), ("update",)))
        out.append((Scan(kern(wrap(Scan(kern(f), 2))), 2, xs=True), ("update", "regenerate")))
        out.append((Derived("iterate", stepf(f), 3), ("update", "regenerate")))
        out.append((Derived("reduce", accf(two(f, f)), 2), ("update",)))
        out.append((Derived("iterate_final", stepf(f), 0), ("update",)))
    return out


def _run(node, kinds, tier, seed):
    def run(ctx):
        from ..bfs import Explorer
        from . import c02, c03, c04

        c04._run(node, tier, seed)(ctx)
        c02._run(node, tier, seed)(ctx)
        if getattr(node, "n", 1) > 0:
            c03._run(node, tier, seed)(ctx)
            Explorer(ctx, node, tier, seed, {"C05", "C01", "C07"}, kinds=kinds, bounds=dict(depth=BOUNDS[tier]["depth"], init_cap=4, args=2, state_cap=60 if tier == "quick" else 400)).run()

    return run


def cases(tier, seed):
    for node, kinds in programs(tier):
        yield Case(node.name, _run(node, kinds, tier, seed), dict(program=node.name, edit_kinds=list(kinds)))
