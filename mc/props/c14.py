"""C14 - mask: a true flag is transparent and a false flag is inert.

Enumerated: mask(inner) for inner programs of the grammar x flag in {array True/False (traced),
concrete Python True/False, per-element flags under vmap}: complete simulate trees, importance over
partial constraints, and explicit-state search over update histories that visits all four flag
transitions (T->T, T->F, F->T, F->F) with and without constraints.  Oracle (reference MaskVal): True =>
exactly the inner program with the return value wrapped in a valid mask; False => score 0, weight 0,
no choices, invalid return mask; an update that flips the flag has weight = new score - old score."""

from __future__ import annotations

import numpy as np

from ..common import Case
from .. import gfi, grammar, combo
from ..grammar import Flip, MaskN, Vmap, component_of, flipnorm, kwdists, one, two, wrap
from ..harness import Prog, args_key, base_key, norm_ret

PROPERTY = "C14"
LEVEL = "model_checking"
RULE = (
    "mask(inner) programs x flag alphabet (traced arrays, concrete python bools, per-element flags under vmap): complete "
    "simulate/importance trees and a BFS over update histories covering all four flag transitions x constraints; "
    "distinct = (program, predecessor, request, successor); non-trivial = reached by an edit or a path with a choice"
)
ASSUMPTIONS = [
    "reference MaskVal semantics: False flag => no terms, invalid return mask",
    "an update flipping the flag has weight new score - old score (stated by the property)",
]
BOUNDS = {"quick": dict(depth=2, inner=4), "thorough": dict(depth=3, inner=7)}
JOBS = {"quick": 12, "thorough": 16}


class VmapMask(Vmap):
    """vmap over (flag, theta) of mask(U): scalar flag per element"""

    def __init__(self, sub, n):
        super().__init__(MaskN(sub), n, (0, 0))
        self.name = f"vmap[{n},(0,0)](mask({sub.name}))"

    def arg_alphabet(self):
        n = self.n
        th = np.array([0.3, 0.6, 0.45][:n], dtype=np.float32)
        pats = [np.array([(i % 2 == 0) for i in range(n)]), np.array([(i % 2 == 1) for i in range(n)]), np.ones(n, dtype=bool)]
        return [(pats[0], th), (pats[1], th[::-1].copy()), (pats[2], th)]


def programs(tier):
    f = Flip()
    inners = [f, two(f, f), flipnorm(), wrap(Vmap(f, 2, 0))]
    if tier == "thorough":
        inners += [kwdists(), wrap(grammar.Scan(grammar.kern(f), 2)), wrap(grammar.Switch([f, two(f, f)]))]
    out = []
    for u in inners:
        out.append((MaskN(u), False))
        m = MaskN(u)
        m.name = m.name + "[bool]"
        out.append((m, True))
    out.append((VmapMask(f, 2), False))
    out.append((VmapMask(two(f, f), 2), False))
    if tier == "thorough":
        out.append((VmapMask(f, 3), False))
    return out


def _run(node, static_args, tier, seed):
    def run(ctx):
        from ..bfs import Explorer
        from .c13 import _C

        comp = component_of(node)
        cls = "python_bool" if static_args else "array_flag"
        alph = node.arg_alphabet()
        prog = Prog(node, n_cont=2)
        key = base_key(seed)
        for args in alph:
            tree = gfi.SimTree(prog, args, key, max_paths=512, static_args=static_args)
            for p in tree.paths:
                asg = tree.path_asg(p)
                ctx.ev((node.name, args_key(args), "simulate", gfi.asg_key(asg)), nontrivial=p.n_branch > 0)
                gfi.check_trace_against_ref(_C(ctx, comp, cls), node, args, asg, p.result["score"], norm_ret(p.result["retval"]), cls, "simulate")
            if node.discrete:
                gfi.distribution_check(_C(ctx, comp, cls), node, args, tree, "simulate")
        from . import c03

        if not static_args:
            c03._run(node, tier, seed)(ctx)
        ex = Explorer(
            ctx, node, tier, seed, {"C05", "C01"}, kinds=("update",), static_args=static_args, all_arg_changes=True,
            weight_always=True, alphabet=alph, bounds=dict(depth=BOUNDS[tier]["depth"], init_cap=4),
        )
        ex.run()

    return run


def cases(tier, seed):
    for node, static_args in programs(tier):
        yield Case(node.name, _run(node, static_args, tier, seed), dict(program=node.name, concrete_python_flag=static_args))
