"""C15 - dimap, map and contramap only transform arguments and return values.

Enumerated: dimap(pre, post) / map(f) / contramap(f) around inner programs of the grammar, with pre/post
drawn from a small grammar of pure JAX maps (identity, arithmetic, ignoring an argument, returning a
constant / literal, permuting arguments, using the original and the transformed arguments).
Operations: complete simulate tree, assess over all assignments, importance over partial constraints
and update histories that change the arguments under every tagging.  Oracle: the inner program called
on pre(args) with return value post(args, pre(args), inner return) (reference), choices / scores /
weights those of the inner program; after every edit the new return value equals recomputing pre and
post on the new arguments, and a retdiff leaf tagged NoChange carries the previous value."""

from __future__ import annotations

import numpy as np

from ..common import Case
from .. import grammar
from ..grammar import Dimap, Flip, num, two, flipnorm, pair2, wrap, Vmap, Scan, kern

PROPERTY = "C15"
LEVEL = "model_checking"
RULE = (
    "dimap/map/contramap programs x pre/post grammar x ops (simulate tree, assess, importance, BFS over updates with "
    "argument changes and taggings); distinct = (program, predecessor, request, successor); non-trivial = reached by "
    "an edit or a path with a choice"
)
ASSUMPTIONS = ["reference Dimap.ref: inner(pre(args)), post(args, pre(args), ret)", "pre/post limited to the listed pure maps"]
BOUNDS = {"quick": dict(depth=2), "thorough": dict(depth=3)}
JOBS = {"quick": 12, "thorough": 16}


class MapOnly(Dimap):
    def build(self):
        import jax.numpy as jnp

        post = self.post
        return self.sub.gf().map(lambda ret: post(jnp, None, None, ret))


class ContraOnly(Dimap):
    def build(self):
        import jax.numpy as jnp

        pre = self.pre
        return self.sub.gf().contramap(lambda *args: pre(jnp, *args))


def programs(tier):
    f = Flip()
    A2 = [(0.3, 2.0), (0.6, 1.0), (0.45, 2.0)]
    A1 = [(0.3,), (0.6,), (0.45,)]
    out = []
    for U in [f, two(f, f)] + ([flipnorm(), wrap(Vmap(f, 2, 0)), wrap(Scan(kern(f), 2))] if tier == "thorough" else [flipnorm()]):
        out += [
            grammar.dimap_std(U),
            Dimap(U, lambda xp, t, e: (t,), lambda xp, args, xf, ret: ret, A2, "ignore_arg"),
            Dimap(U, lambda xp, t, e: (0.5,), lambda xp, args, xf, ret: (num(xp, ret), args[1]), A2, "const_pre"),
            Dimap(U, lambda xp, t, e: (t,), lambda xp, args, xf, ret: 7.0, A2, "const_post"),
            Dimap(U, lambda xp, t, e: (xp.clip(e * 0.25, 0.1, 0.9),), lambda xp, args, xf, ret: (args[0], num(xp, ret) + xf[0]), A2, "permute"),
            MapOnly(U, lambda xp, t: (t,), lambda xp, args, xf, ret: num(xp, ret) * 3.0 + 1.0, A1, "map"),
            ContraOnly(U, lambda xp, t, e: (xp.clip(t * e, 0.1, 0.9),), lambda xp, args, xf, ret: ret, A2, "contramap"),
        ]
    out.append(Dimap(pair2(), lambda xp, t: (t, 1.0 - t), lambda xp, args, xf, ret: (ret, xf[1]), A1, "fanout"))
    out.append(Dimap(pair2(), lambda xp, t, e: (e * 0.25, t), lambda xp, args, xf, ret: ret * 2.0, A2, "swap"))
    return out


def _run(node, tier, seed):
    def run(ctx):
        from ..bfs import Explorer
        from . import c02, c03, c04

        c04._run(node, tier, seed)(ctx)
        c02._run(node, tier, seed)(ctx)
        c03._run(node, tier, seed)(ctx)
        Explorer(ctx, node, tier, seed, {"C05", "C01", "C08"}, kinds=("update",), all_arg_changes=True, bounds=dict(depth=BOUNDS[tier]["depth"], init_cap=4, args=3)).run()

    return run


def cases(tier, seed):
    for node in programs(tier):
        yield Case(node.name, _run(node, tier, seed), dict(program=node.name))
