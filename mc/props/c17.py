"""C17 - choice map queries agree with a finite-map model.

Enumerated (E6): construction terms over the address alphabet {a, b, c} (+ index levels: python
int, scalar array index, array index [0,2], full slice, vmapped builders), built with the public
API (empty, choice, kw, d incl. tuple keys, entry, extend, C[...].set, at[...].set, |, switch with
int and array index, mask with concrete and array flags, filter with six selections,
get_selection).  Every term is evaluated twice:

 * by the real library (`build_lib`), eagerly and - for a fixed stride of the terms that contain
   runtime flags / indices - inside `jax.jit` with every flag, index and probe index traced;
 * by an independent reference evaluator of the *term* (`build_ref`), which produces a
   priority-ordered list of entries `address-pattern -> (value, valid)` (a left-biased finite map).

For EVERY term every lookup address up to length 3 (names anywhere, int indices 0..2 exactly at
positions where the resulting map has an index level under that prefix) is queried with
`chm[addr]`, `addr in chm`, `chm(addr)`/`get_submap(*addr)` + `get_value`/`has_value`/
`static_is_empty`, and `get_selection()[static addr]`.

Validity is compared semantically: "statically absent" (raises ChoiceMapNoValueAtAddress, `in` is
False, value None) and "present with a false flag" are the same answer; a bare value equals
Mask(value, True).  Documented-unsupported constructions (value and sub-map at one address, two
switches in one `|`, combining leaves of different shapes at one address) may raise the documented
exception and are then excluded; nothing else is.
"""

from __future__ import annotations

import dataclasses
import itertools
import os
import warnings

import numpy as np

from ..common import Case

PROPERTY = "C17"
LEVEL = "exploration"
RULE = (
    "cases = chunks of construction terms (grammar: 25 leaf builders; unary extend/entry/C[..].set x 5 addresses, "
    "at[..].set x 6, mask x {True,False,array(True),array(False)}, filter x {all,none,at[a],~at[a],at[a,b],at[...,b]}; "
    "binary | (also merge, +) and switch(idx,[t1,t2]) x idx in {0,1,array(0),array(1)}); distinct = distinct term "
    "(one evaluation key per term x mode, n = number of compared lookups); every term is queried at every address "
    "of length <= 3 over {a,b,c} plus int indices 0..2 wherever the map has an index level; non-trivial = the map "
    "has >= 1 entry and >= 1 lookup hits an entry. Corners collided with: left/right overlap in |, masked (array "
    "False) left entry over valid right entry, switch branches sharing addresses, filter after switch after |, "
    "index levels (int, array(1), array([0,2]), slice, vmap) under and above names, concrete mask(False)"
)
ASSUMPTIONS = [
    "out-of-range index lookups are outside the model (vectorized maps carry no length) and are never probed; an int "
    "is only probed where the resulting map has an index level under the probed prefix",
    "a lookup that omits a full-slice level (C[:, 'a'].set(v) read as chm['a']) is unspecified and not compared",
    "get_selection on an entry that is statically present but masked by a runtime flag may answer either way "
    "(a Selection answers with a Python bool)",
    "terms in which a value and a sub-map share an address, two runtime switches meet in one |, or leaves of different "
    "shapes meet at one address are documented as unsupported: the documented exception is accepted and the term "
    "(or lookup) is excluded",
    "static_is_empty is only required in the documented direction: concrete mask(False) / ChoiceMap.empty() give it, "
    "and a map that reports it has no valid entry",
]
BOUNDS = {
    "quick": dict(term_depth=2, leaves=25,
                  depth1="every unary op x parameter over every leaf; every binary op over leaf x 4 core leaves, both orders",
                  depth2="pair covering: every op x parameter over every depth-1 term built from 3 core leaves (binary partners c_a, c_1a)",
                  lookup_len=3, index_values=[0, 1, 2], jit_stride=25, vector_flags=1),
    "thorough": dict(term_depth=3, leaves=32, depth1="complete (all ops, both operands any of the 32 leaves)",
                     depth2="every op x parameter over every depth-1 term with a core-leaf partner (25 leaves x 6 core leaves)",
                     depth3="every reduced op over depth-2 terms built from 3 core leaves",
                     lookup_len=3, index_values=[0, 1, 2], jit_stride=40, vector_flags=8),
}
JOBS = {"quick": 8, "thorough": 16}

NAMES = ("a", "b", "c")
N = 3  # length of slice / vmapped levels
ARR_IDX = (0, 2)  # the array index of the grammar (length-2 leaves)
FULL = slice(None, None, None)

# =============================================================================================
# reference model: priority list of entries


class _SL:
    def __repr__(self):
        return "SL"


SL = _SL()  # full-slice level (the leaf carries the axis, length N)


@dataclasses.dataclass(frozen=True)
class Arr:  # array-index level: leaf axis j belongs to index idx[j]
    idx: tuple


@dataclasses.dataclass(frozen=True)
class Dyn:  # scalar *array* index (runtime comparison in the library)
    k: int


def is_index(c):
    return not isinstance(c, str)


@dataclasses.dataclass
class Entry:
    key: tuple
    value: np.ndarray  # if the key has a vector level (SL / Arr) the leading axis belongs to it
    valid: np.ndarray  # bool, shape () or (n,) aligned with the vector level
    dyn: bool = False  # lookups answer with a runtime flag (runtime leaf flag or runtime index level)
    rt: bool = False  # the *leaf* carries a runtime flag (array mask flag, runtime switch, vmapped flags)

    def static_part(self):
        return tuple(c for c in self.key if isinstance(c, str))


class Ref:
    """Left-biased finite map: entries in priority order + sticky 'unsupported' marks."""

    def __init__(self, entries=(), marks=()):
        self.entries = list(entries)
        self.marks = set(marks)

    def with_entries(self, entries, *others):
        r = Ref(entries, self.marks)
        for o in others:
            r.marks |= o.marks
        r.check_marks()
        return r

    def check_marks(self):
        es = self.entries
        for i, e1 in enumerate(es):
            for e2 in es[i + 1:]:
                if _prefix_conflict(e1, e2) or _prefix_conflict(e2, e1):
                    self.marks.add("value_and_submap")
                if _shape_clash(e1, e2):
                    self.marks.add("shape_clash")


def _unify_comp(a, b):
    if isinstance(a, str) or isinstance(b, str):
        return a == b
    if isinstance(a, int) and isinstance(b, int):
        return a == b
    return True  # any runtime / vector index level is statically present at every index


def _views(key):
    """readings of an address: a full-slice level leaves no trace in the library object, so it may be
    read at any position or not at all (C['a', :, 'b'].set(v) == C[:, 'a', 'b'].set(v) == C['a','b'].set(v))."""
    yield key
    if any(c is SL for c in key):
        bare = tuple(c for c in key if c is not SL)
        yield bare
        for pos in range(len(bare) + 1):
            k = bare[:pos] + (SL,) + bare[pos:]
            if k != key:
                yield k


def _prefix_conflict(e1, e2):
    """e1's address is a proper prefix of e2's (in the view with or without slice levels)."""
    for k1 in _views(e1.key):
        for k2 in _views(e2.key):
            if len(k1) < len(k2) and all(_unify_comp(x, y) for x, y in zip(k1, k2)):
                return True
    return False


def _res_shape(e):
    sh = np.shape(e.value)
    return sh[1:] if any(isinstance(c, Arr) for c in e.key) else sh


def _shape_clash(e1, e2):
    k1 = tuple(c for c in e1.key if c is not SL)
    k2 = tuple(c for c in e2.key if c is not SL)
    if len(k1) != len(k2) or not all(_unify_comp(x, y) for x, y in zip(k1, k2)):
        return False
    return _res_shape(e1) != _res_shape(e2)


def match(e: Entry, probe):
    """None (statically no relation) or dict(kind=exact|prefix, value, valid, unspec)."""
    m = _match_positional(e, probe)
    if m is None and any(c is SL for c in e.key):
        # The library cannot tell C['a', :, 'b'].set(v) from C[:, 'a', 'b'].set(v) (same object): an int
        # probed at another place than the slice level may legitimately consume the slice axis.
        bare = Entry(tuple(c for c in e.key if c is not SL), e.value, e.valid, e.dyn, e.rt)
        for q, p in enumerate(probe):
            if not isinstance(p, str):
                m2 = _match_positional(bare, probe[:q] + probe[q + 1:])
                if m2 is not None:
                    return dict(kind=m2["kind"], value=None, valid=np.bool_(False), unspec=True)
    return m


def _match_positional(e: Entry, probe):
    val, ok = e.value, e.valid
    i = 0
    unspec = False
    key = e.key
    pos = 0
    while pos < len(key):
        comp = key[pos]
        if i >= len(probe):
            rest = key[pos:]
            if all(c is SL for c in rest):
                return dict(kind="exact", value=val, valid=ok, unspec=True)
            return dict(kind="prefix", value=None, valid=ok, unspec=unspec)
        p = probe[i]
        if isinstance(comp, str):
            if p != comp:
                return None
            i += 1
        elif comp is SL:
            if isinstance(p, (int, np.integer)) and not isinstance(p, bool):
                val = val[p]
                ok = ok[p] if np.ndim(ok) else ok
                i += 1
            elif isinstance(p, slice):
                i += 1
            else:
                unspec = True  # the slice level is skipped by the probe: unspecified
        elif isinstance(comp, Arr):
            if isinstance(p, str) or isinstance(p, slice):
                return None
            if p in comp.idx:
                j = comp.idx.index(p)
                val = val[j]
                ok = ok[j] if np.ndim(ok) else ok
            else:
                val = val[0]
                ok = np.bool_(False)
            i += 1
        elif isinstance(comp, Dyn):
            if isinstance(p, str) or isinstance(p, slice):
                return None
            ok = np.logical_and(ok, p == comp.k)
            i += 1
        else:  # python int level
            if isinstance(p, str) or isinstance(p, slice) or p != comp:
                return None
            i += 1
        pos += 1
    if i == len(probe):
        return dict(kind="exact", value=val, valid=ok, unspec=unspec)
    return None  # the probe continues below a leaf


def ref_lookup(ref: Ref, probe):
    """-> dict(unspec, present, valid, value, sub_present, sub_valid)"""
    ms = [m for m in (match(e, probe) for e in ref.entries) if m is not None]
    out = dict(unspec=any(m["unspec"] for m in ms), present=False, valid=False, value=None,
               sub_present=bool(ms), sub_valid=any(bool(np.any(m["valid"])) for m in ms))
    for m in ms:
        if m["kind"] != "exact":
            continue
        out["present"] = True
        if not out["valid"] and bool(np.all(m["valid"])) and np.ndim(m["valid"]) == 0:
            out["valid"] = True
            out["value"] = m["value"]
    return out


# ---- selections (independent evaluation on static address parts)

SELECTIONS = ("all", "none", "a", "~a", "ab", "...b")


def sel_holds(name, path):
    if name == "all":
        return True
    if name == "none":
        return False
    if name == "a":
        return len(path) >= 1 and path[0] == "a"
    if name == "~a":
        return not (len(path) >= 1 and path[0] == "a")
    if name == "ab":
        return len(path) >= 2 and path[0] == "a" and path[1] == "b"
    if name == "...b":
        return len(path) >= 2 and path[1] == "b"
    raise KeyError(name)


# =============================================================================================
# terms
#
#  ("leaf", name)
#  ("extend", syntax, addr, t)      addr components: str | int | ("dyn", k)
#  ("at_set", addrname, t)
#  ("mask", (kind, bool), t)        kind "c" concrete python bool / "d" array flag
#  ("filter", selname, t)
#  ("or", syntax, t1, t2)
#  ("switch", (kind, k), t1, t2)

FLAGS3_ALL = [tuple(bool(b) for b in bits) for bits in itertools.product([True, False], repeat=3)]

LEAF_NAMES = [
    "empty", "choice", "kw_ab", "kw_nest", "d_tuple", "entry_ab", "entry_dict", "c_a", "c_b",
    "c_set_nested", "c_kw", "c_d", "c_1a", "c_a1", "entry_0a", "c_dyn1a", "c_arr_a", "c_a_arr",
    "c_sl_a", "c_sl_dict", "vmap_ia", "vmap_ai", "c_arange_a", "vmap_kw", "vmap_mask:101",
]
CORE6 = ["kw_nest", "c_set_nested", "c_1a", "c_arr_a", "c_sl_a", "choice"]
CORE4 = ["kw_nest", "c_1a", "c_arr_a", "c_sl_a"]
CORE3 = ["kw_nest", "c_1a", "c_arr_a"]
PARTNER2 = ["c_a", "c_1a"]  # overlap the core leaves at "a" / (1,"a") without value-vs-sub-map clashes

EXTENDS = [
    ("extend", ("a",)),
    ("entry", ("b", "c")),
    ("cset", (1,)),
    ("extend", (("dyn", 1),)),
    ("cset", ("c", 2)),
]
AT_SETS = ["a", "ab", "c", "1a", "arr_a", "dict"]
MASKS = [("c", True), ("c", False), ("d", True), ("d", False)]
SWITCHES = [("c", 0), ("c", 1), ("d", 0), ("d", 1)]
OR_SYNTAX = ["|", "merge", "+"]


def unary_ops(reduced=False):
    ops = []
    ext = EXTENDS if not reduced else [EXTENDS[0], EXTENDS[2]]
    ats = AT_SETS if not reduced else ["a", "1a"]
    msk = MASKS if not reduced else [("c", False), ("d", True), ("d", False)]
    fil = SELECTIONS if not reduced else ["a", "~a", "...b"]
    for syn, addr in ext:
        ops.append(lambda t, syn=syn, addr=addr: ("extend", syn, addr, t))
    for a in ats:
        ops.append(lambda t, a=a: ("at_set", a, t))
    for f in msk:
        ops.append(lambda t, f=f: ("mask", f, t))
    for s in fil:
        ops.append(lambda t, s=s: ("filter", s, t))
    return ops


def binary_ops(reduced=False):
    ops = []
    ops.append(lambda x, y, n=0: ("or", OR_SYNTAX[n % 3], x, y))
    sw = SWITCHES if not reduced else [("d", 0), ("d", 1)]
    for s in sw:
        ops.append(lambda x, y, n=0, s=s: ("switch", s, x, y))
    return ops


def leaf(name):
    return ("leaf", name)


def term_str(t):
    k = t[0]
    if k == "leaf":
        return t[1]
    if k == "extend":
        return f"{t[1]}{list(t[2])}({term_str(t[3])})".replace(" ", "")
    if k == "at_set":
        return f"at_{t[1]}({term_str(t[2])})"
    if k == "mask":
        return f"mask_{t[1][0]}{int(t[1][1])}({term_str(t[2])})"
    if k == "filter":
        return f"filter[{t[1]}]({term_str(t[2])})"
    if k == "or":
        return f"({term_str(t[2])} {t[1]} {term_str(t[3])})"
    if k == "switch":
        return f"switch_{t[1][0]}{t[1][1]}({term_str(t[2])},{term_str(t[3])})"
    raise KeyError(k)


def has_dyn_switch(t):
    k = t[0]
    if k == "leaf":
        return False
    if k == "switch":
        return t[1][0] == "d" or has_dyn_switch(t[2]) or has_dyn_switch(t[3])
    if k == "or":
        return has_dyn_switch(t[2]) or has_dyn_switch(t[3])
    return has_dyn_switch(t[-1])


def has_dynamic(t):
    k = t[0]
    if k == "leaf":
        return t[1] in ("c_dyn1a", "c_arr_a", "c_a_arr", "vmap_ia", "vmap_ai", "c_arange_a") or t[1].startswith("vmap_mask")
    if k == "switch":
        return t[1][0] == "d" or has_dynamic(t[2]) or has_dynamic(t[3])
    if k == "or":
        return has_dynamic(t[2]) or has_dynamic(t[3])
    if k == "mask" and t[1][0] == "d":
        return True
    if k == "extend" and any(isinstance(c, tuple) for c in t[2]):
        return True
    if k == "at_set" and t[1] == "arr_a":
        return True
    return has_dynamic(t[-1])


def outer_kind(t):
    return t[0] if t[0] != "leaf" else "leaf"


# ---- enumeration


def _dedupe(terms):
    seen, uniq = set(), []
    for t in terms:
        s = term_str(t)
        if s not in seen:
            seen.add(s)
            uniq.append(t)
    return uniq


def expand(pool, partners, reduced=False, both_orders=True):
    """every unary op over the pool; every binary op over pool x partners: | always in both operand
    orders (it is the asymmetric one), switch in both orders or - both_orders=False - alternating."""
    res = []
    n = 0
    for t in pool:
        for op in unary_ops(reduced):
            res.append(op(t))
    for k, op in enumerate(binary_ops(reduced)):
        for t in pool:
            for p in partners:
                n += 1
                if both_orders or k == 0:
                    res.append(op(t, p, n))
                    res.append(op(p, t, n + 1))
                else:
                    res.append(op(t, p, n) if n % 2 else op(p, t, n))
    return _dedupe(res)


def enumerate_terms(tier):
    """-> list of (pool_name, term); deterministic."""
    base = [leaf(n) for n in LEAF_NAMES]
    core6 = [leaf(n) for n in CORE6]
    core4 = [leaf(n) for n in CORE4]
    core3 = [leaf(n) for n in CORE3]
    partner2 = [leaf(n) for n in PARTNER2]
    if tier == "quick":
        out = [("d0", t) for t in base]
        # depth 1: every unary op over every leaf; every binary op over leaf x core leaf, both orders
        out += [("d1", t) for t in expand(base, core4)]
        # depth 2, pair covering: every (outer op x parameter) over every (inner op x parameter)
        inner = expand(core3, partner2[:1])
        out += [("d2", t) for t in expand(inner, partner2, both_orders=False)]
        return out
    leaves = base + [leaf("vmap_mask:" + "".join(str(int(b)) for b in f)) for f in FLAGS3_ALL if f != (True, False, True)]
    out = [("d0", t) for t in leaves]
    # depth 1: complete (all ops, both operands any leaf)
    out += [("d1", t) for t in expand(leaves, leaves)]
    # depth 2: every op over every depth-1 term whose binary partner is a core leaf
    d1q = expand(base, core6)
    out += [("d2", t) for t in expand(d1q, partner2, both_orders=False)]
    # depth 3 over 3 core leaves with reduced op parameters
    d1c = expand(core3, core3, reduced=True)
    d2c = expand(d1c, core3, reduced=True)
    out += [("d3", t) for t in expand(d2c, partner2, reduced=True, both_orders=False)]
    return out


# =============================================================================================
# reference evaluator of terms


def _addr_ref(addr):
    return tuple(Dyn(c[1]) if isinstance(c, tuple) else c for c in addr)


def _scalar_entry(key, v):
    return Entry(tuple(key), np.float64(v), np.bool_(True))


def _ref_leaf(name, alloc):
    E = _scalar_entry
    if name == "empty":
        return []
    if name == "choice":
        (v,) = alloc(1)
        return [E((), v)]
    if name == "kw_ab":
        v = alloc(2)
        return [E(("a",), v[0]), E(("b",), v[1])]
    if name == "kw_nest":
        v = alloc(2)
        return [E(("a",), v[0]), E(("b", "c"), v[1])]
    if name == "d_tuple":
        v = alloc(3)
        return [E(("a", "b"), v[0]), E(("c",), v[1]), E(("a", "c"), v[2])]
    if name == "entry_ab":
        v = alloc(1)
        return [E(("a", "b"), v[0])]
    if name == "entry_dict":
        v = alloc(2)
        return [E(("a", "b"), v[0]), E(("a", "c", "a"), v[1])]
    if name == "c_a":
        v = alloc(1)
        return [E(("a",), v[0])]
    if name == "c_b":
        v = alloc(1)
        return [E(("b",), v[0])]
    if name == "c_set_nested":
        v = alloc(1)
        return [E(("a", "b"), v[0])]
    if name == "c_kw":
        v = alloc(2)
        return [E(("a", "b"), v[0]), E(("a", "c"), v[1])]
    if name == "c_d":
        v = alloc(2)
        return [E(("b", "a"), v[0]), E(("b", "b", "c"), v[1])]
    if name == "c_1a":
        v = alloc(1)
        return [E((1, "a"), v[0])]
    if name == "c_a1":
        v = alloc(1)
        return [E(("a", 1), v[0])]
    if name == "entry_0a":
        v = alloc(1)
        return [E((0, "a"), v[0])]
    if name == "c_dyn1a":
        v = alloc(1)
        return [Entry((Dyn(1), "a"), np.float64(v[0]), np.bool_(True), True)]
    if name == "c_arr_a":
        v = alloc(2)
        return [Entry((Arr(ARR_IDX), "a"), np.asarray(v, np.float64), np.bool_(True), True)]
    if name == "c_a_arr":
        v = alloc(2)
        return [Entry(("a", Arr(ARR_IDX)), np.asarray(v, np.float64), np.bool_(True), True)]
    if name == "c_sl_a":
        v = alloc(3)
        return [Entry((SL, "a"), np.asarray(v, np.float64), np.bool_(True))]
    if name == "c_sl_dict":
        v = alloc(6)
        return [Entry((SL, "a"), np.asarray(v[:3], np.float64), np.bool_(True)),
                Entry((SL, "b"), np.asarray(v[3:], np.float64), np.bool_(True))]
    if name in ("vmap_ia", "c_arange_a"):
        v = alloc(3)
        return [Entry((Arr((0, 1, 2)), "a"), np.asarray(v, np.float64), np.bool_(True), True)]
    if name == "vmap_ai":
        v = alloc(3)
        return [Entry(("a", Arr((0, 1, 2))), np.asarray(v, np.float64), np.bool_(True), True)]
    if name == "vmap_kw":
        v = alloc(6)
        return [Entry((SL, "a"), np.asarray(v[:3], np.float64), np.bool_(True)),
                Entry((SL, "b"), np.asarray(v[3:], np.float64), np.bool_(True))]
    if name.startswith("vmap_mask:"):
        v = alloc(3)
        flags = np.array([ch == "1" for ch in name.split(":")[1]])
        return [Entry((Arr((0, 1, 2)), "a"), np.asarray(v, np.float64), flags, True, True)]
    raise KeyError(name)


def _ref_at_entry(addrname, alloc):
    E = _scalar_entry
    if addrname == "a":
        return [E(("a",), alloc(1)[0])]
    if addrname == "ab":
        return [E(("a", "b"), alloc(1)[0])]
    if addrname == "c":
        return [E(("c",), alloc(1)[0])]
    if addrname == "1a":
        return [E((1, "a"), alloc(1)[0])]
    if addrname == "arr_a":
        v = alloc(2)
        return [Entry((Arr(ARR_IDX), "a"), np.asarray(v, np.float64), np.bool_(True), True)]
    if addrname == "dict":
        v = alloc(2)
        return [E(("a", "b"), v[0]), E(("a", "c"), v[1])]
    raise KeyError(addrname)


def _runtime_flagged(entries):
    return [Entry(e.key, e.value, e.valid, True, True) for e in entries]


def build_ref(t, alloc) -> Ref:
    k = t[0]
    if k == "leaf":
        r = Ref(_ref_leaf(t[1], alloc))
        r.check_marks()
        return r
    if k == "extend":
        inner = build_ref(t[3], alloc)
        pre = _addr_ref(t[2])
        has_rt = any(isinstance(c, Dyn) for c in pre)
        return inner.with_entries(
            [Entry(pre + e.key, e.value, e.valid, e.dyn or has_rt, e.rt) for e in inner.entries]
        )
    if k == "at_set":
        inner = build_ref(t[2], alloc)
        new = _ref_at_entry(t[1], alloc)
        es = new + inner.entries  # the new entry takes priority
        if has_dyn_switch(t[2]):
            es = _runtime_flagged(es)
        return inner.with_entries(es)
    if k == "mask":
        inner = build_ref(t[2], alloc)
        kind, flag = t[1]
        if kind == "c":
            if flag:
                return inner.with_entries(list(inner.entries))
            # concrete False: entries disappear; a leaf that already carries a runtime flag may stay
            # behind as present-but-invalid (the library and-s the flags at run time)
            return inner.with_entries(
                [Entry(e.key, e.value, np.logical_and(e.valid, False), True, True) for e in inner.entries if e.rt]
            )
        return inner.with_entries(
            [Entry(e.key, e.value, np.logical_and(e.valid, flag), True, True) for e in inner.entries]
        )
    if k == "filter":
        inner = build_ref(t[2], alloc)
        return inner.with_entries([e for e in inner.entries if sel_holds(t[1], e.static_part())])
    if k == "or":
        r1 = build_ref(t[2], alloc)
        r2 = build_ref(t[3], alloc)
        es = r1.entries + r2.entries
        if has_dyn_switch(t[2]) or has_dyn_switch(t[3]):
            es = _runtime_flagged(es)  # `|` with a runtime switch is pushed into its branches
        r = r1.with_entries(es, r2)
        if has_dyn_switch(t[2]) and has_dyn_switch(t[3]):
            r.marks.add("two_switches")
        return r
    if k == "switch":
        r1 = build_ref(t[2], alloc)
        r2 = build_ref(t[3], alloc)
        kind, idx = t[1]
        if kind == "c":
            chosen = (r1, r2)[idx]
            r = Ref(chosen.entries, r1.marks | r2.marks)
            r.check_marks()
            return r
        es = []
        for j, rb in enumerate((r1, r2)):
            for e in rb.entries:
                es.append(Entry(e.key, e.value, np.logical_and(e.valid, j == idx), True, True))
        return r1.with_entries(es, r2)
    raise KeyError(k)


def make_alloc():
    """Distinct, exactly representable values per leaf occurrence: 10*(occurrence)+1.."""
    counter = [0]

    def alloc(n):
        counter[0] += 1
        base = 10.0 * counter[0]
        return [base + 1 + i for i in range(n)]

    return alloc


# =============================================================================================
# library evaluator of terms (public API only)

_lib = {}


def lib():
    if not _lib:
        os.environ.setdefault("JAX_PLATFORMS", "cpu")
        warnings.filterwarnings("ignore", category=DeprecationWarning)
        import jax
        import jax.numpy as jnp
        import genjax
        from genjax import ChoiceMap, ChoiceMapBuilder, Selection
        from genjax._src.core.generative.functional_types import Mask
        from genjax._src.core.generative.choice_map import ChoiceMapNoValueAtAddress

        _lib.update(jax=jax, jnp=jnp, genjax=genjax, ChoiceMap=ChoiceMap, C=ChoiceMapBuilder,
                    Selection=Selection, Mask=Mask, NoValue=ChoiceMapNoValueAtAddress)
    return _lib


def _f32(x):
    return np.asarray(x, np.float32)


def _lib_leaf(name, alloc, dv):
    L = lib()
    jax, jnp, ChoiceMap, C = L["jax"], L["jnp"], L["ChoiceMap"], L["C"]
    if name == "empty":
        return ChoiceMap.empty()
    if name == "choice":
        (v,) = alloc(1)
        return ChoiceMap.choice(v)
    if name == "kw_ab":
        v = alloc(2)
        return ChoiceMap.kw(a=v[0], b=v[1])
    if name == "kw_nest":
        v = alloc(2)
        return ChoiceMap.kw(a=v[0], b={"c": v[1]})
    if name == "d_tuple":
        v = alloc(3)
        return ChoiceMap.d({("a", "b"): v[0], "c": v[1], ("a", "c"): v[2]})
    if name == "entry_ab":
        v = alloc(1)
        return ChoiceMap.entry(v[0], "a", "b")
    if name == "entry_dict":
        v = alloc(2)
        return ChoiceMap.entry({"b": v[0], "c": {"a": v[1]}}, "a")
    if name == "c_a":
        v = alloc(1)
        return C["a"].set(v[0])
    if name == "c_b":
        v = alloc(1)
        return C["b"].set(v[0])
    if name == "c_set_nested":
        v = alloc(1)
        return C["a"].set(C["b"].set(v[0]))
    if name == "c_kw":
        v = alloc(2)
        return C["a"].kw(b=v[0], c=v[1])
    if name == "c_d":
        v = alloc(2)
        return C["b"].d({"a": v[0], ("b", "c"): v[1]})
    if name == "c_1a":
        v = alloc(1)
        return C[1, "a"].set(v[0])
    if name == "c_a1":
        v = alloc(1)
        return C["a", 1].set(v[0])
    if name == "entry_0a":
        v = alloc(1)
        return ChoiceMap.entry(v[0], 0, "a")
    if name == "c_dyn1a":
        v = alloc(1)
        return C[dv(np.int32(1)), "a"].set(v[0])
    if name == "c_arr_a":
        v = alloc(2)
        return C[dv(np.array(ARR_IDX, np.int32)), "a"].set(jnp.asarray(_f32(v)))
    if name == "c_a_arr":
        v = alloc(2)
        return C["a", dv(np.array(ARR_IDX, np.int32))].set(jnp.asarray(_f32(v)))
    if name == "c_sl_a":
        v = alloc(3)
        return C[:, "a"].set(jnp.asarray(_f32(v)))
    if name == "c_sl_dict":
        v = alloc(6)
        return C[:].set({"a": jnp.asarray(_f32(v[:3])), "b": jnp.asarray(_f32(v[3:]))})
    if name == "vmap_ia":
        v = alloc(3)
        return jax.vmap(lambda i, x: C[i, "a"].set(x))(dv(np.arange(3, dtype=np.int32)), jnp.asarray(_f32(v)))
    if name == "vmap_ai":
        v = alloc(3)
        return jax.vmap(lambda i, x: C["a", i].set(x))(dv(np.arange(3, dtype=np.int32)), jnp.asarray(_f32(v)))
    if name == "c_arange_a":
        v = alloc(3)
        return C[dv(np.arange(3, dtype=np.int32)), "a"].set(jnp.asarray(_f32(v)))
    if name == "vmap_kw":
        v = alloc(6)
        return jax.vmap(lambda x, y: ChoiceMap.kw(a=x, b=y))(jnp.asarray(_f32(v[:3])), jnp.asarray(_f32(v[3:])))
    if name.startswith("vmap_mask:"):
        v = alloc(3)
        flags = np.array([ch == "1" for ch in name.split(":")[1]])
        return jax.vmap(lambda i, x, f: C[i, "a"].set(x).mask(f))(
            dv(np.arange(3, dtype=np.int32)), jnp.asarray(_f32(v)), dv(flags)
        )
    raise KeyError(name)


def _addr_lib(addr, dv):
    return tuple(dv(np.int32(c[1])) if isinstance(c, tuple) else c for c in addr)


def build_lib(t, alloc, dv):
    L = lib()
    jnp, ChoiceMap, C, Selection = L["jnp"], L["ChoiceMap"], L["C"], L["Selection"]
    k = t[0]
    if k == "leaf":
        return _lib_leaf(t[1], alloc, dv)
    if k == "extend":
        inner = build_lib(t[3], alloc, dv)
        addr = _addr_lib(t[2], dv)
        if t[1] == "extend":
            return inner.extend(*addr)
        if t[1] == "entry":
            return ChoiceMap.entry(inner, *addr)
        return C[addr].set(inner)
    if k == "at_set":
        inner = build_lib(t[2], alloc, dv)
        a = t[1]
        if a == "a":
            return inner.at["a"].set(alloc(1)[0])
        if a == "ab":
            return inner.at["a", "b"].set(alloc(1)[0])
        if a == "c":
            return inner.at["c"].set(alloc(1)[0])
        if a == "1a":
            return inner.at[1, "a"].set(alloc(1)[0])
        if a == "arr_a":
            v = alloc(2)
            return inner.at[dv(np.array(ARR_IDX, np.int32)), "a"].set(jnp.asarray(_f32(v)))
        if a == "dict":
            v = alloc(2)
            return inner.at["a"].set({"b": v[0], "c": v[1]})
        raise KeyError(a)
    if k == "mask":
        inner = build_lib(t[2], alloc, dv)
        kind, flag = t[1]
        return inner.mask(bool(flag) if kind == "c" else dv(np.bool_(flag)))
    if k == "filter":
        inner = build_lib(t[2], alloc, dv)
        S = Selection.at
        sel = {
            "all": Selection.all(),
            "none": Selection.none(),
            "a": S["a"],
            "~a": ~S["a"],
            "ab": S["a", "b"],
            "...b": S[..., "b"],
        }[t[1]]
        return inner.filter(sel)
    if k == "or":
        x = build_lib(t[2], alloc, dv)
        y = build_lib(t[3], alloc, dv)
        if t[1] == "|":
            return x | y
        if t[1] == "merge":
            return x.merge(y)
        return x + y
    if k == "switch":
        x = build_lib(t[2], alloc, dv)
        y = build_lib(t[3], alloc, dv)
        kind, idx = t[1]
        return ChoiceMap.switch(int(idx) if kind == "c" else dv(np.int32(idx)), [x, y])
    raise KeyError(k)


# =============================================================================================
# probes


def _unify_probe_prefix(prefix, key):
    """probe prefix vs. the first len(prefix) components of an entry key (positional)."""
    if len(key) < len(prefix):
        return False
    for p, c in zip(prefix, key):
        if isinstance(c, str):
            if p != c:
                return False
        else:
            if isinstance(p, str):
                return False
    return True


def gen_probes(ref: Ref, maxlen=3):
    """names anywhere; ints 0..2 exactly where some entry has an index level under the prefix."""
    out = []

    def rec(prefix):
        out.append(prefix)
        if len(prefix) >= maxlen:
            return
        for n in NAMES:
            rec(prefix + (n,))
        d = len(prefix)
        if any(len(e.key) > d and is_index(e.key[d]) and _unify_probe_prefix(prefix, e.key) for e in ref.entries):
            for i in range(N):
                rec(prefix + (i,))

    rec(())
    seen = set(out)
    # plus every entry's own address (and its index variants) when longer than maxlen
    for e in ref.entries:
        if len(e.key) > maxlen:
            choices = [[c] if isinstance(c, str) else list(range(N)) for c in e.key]
            for p in itertools.product(*choices):
                if p not in seen:
                    seen.add(p)
                    out.append(p)
    return out


def slice_probes(ref: Ref):
    """addresses with a full slice, only when every entry has its slice level at the same place
    and nothing else is an index there (documented use: chm[:, 'x'])."""
    es = ref.entries
    if not es:
        return []
    pos = None
    for e in es:
        ps = [i for i, c in enumerate(e.key) if c is SL]
        if len(ps) != 1:
            return []
        if any(is_index(c) and c is not SL for c in e.key):
            return []
        if pos is None:
            pos = ps[0]
        elif pos != ps[0]:
            return []
    out = []
    for e in es:
        p = tuple(FULL if c is SL else c for c in e.key)
        if p not in out:
            out.append(p)
    return out


def is_mixed_sort(ref: Ref):
    es = ref.entries
    for i, e1 in enumerate(es):
        for e2 in es[i + 1:]:
            for p in range(min(len(e1.key), len(e2.key))):
                if not all(_unify_comp(x, y) for x, y in zip(e1.key[:p], e2.key[:p])):
                    break
                if is_index(e1.key[p]) != is_index(e2.key[p]):
                    return True
    return False


def input_class(t, ref: Ref):
    if is_mixed_sort(ref):
        return "index_level_beside_name_level"
    if has_dyn_switch(t):
        return "runtime_switch"
    if any(any(is_index(c) for c in e.key) for e in ref.entries):
        return "index_levels"
    if any(e.dyn for e in ref.entries):
        return "runtime_flags"
    return "static_names"


# =============================================================================================
# comparing the library's answers


def accepted_exception(exc, ref: Ref):
    """documented-unsupported constructions"""
    msg = str(exc)
    if "Choice and non-Choice in Or" in msg:
        return "value_and_submap" in ref.marks
    if "two switches in an Or" in msg:
        return "two_switches" in ref.marks
    if isinstance(exc, ValueError) and (
        "Cannot combine masks with different" in msg
    ):
        return "shape_clash" in ref.marks
    return False


def _norm(v):
    """library value -> (np value, np flag)"""
    Mask = lib()["Mask"]
    if isinstance(v, Mask):
        return np.asarray(v.value), np.asarray(v.primal_flag())
    return np.asarray(v), np.bool_(True)


def _addr_arg(addr):
    return addr[0] if len(addr) == 1 else tuple(addr)


class Checker:
    def __init__(self, ctx, t, ref, mode):
        self.ctx, self.t, self.ref, self.mode = ctx, t, ref, mode
        self.cls = input_class(t, ref)
        self.comp = outer_kind(t)
        self.n = 0
        self.hits = 0
        self.name = term_str(t)
        self.term_sigs = set()

    def fail(self, op, symptom, _component=None, **detail):
        # component: the raising library function for exceptions, ChmSel for get_selection answers,
        # otherwise just "ChoiceMap" (the outermost constructor of the term is in the detail)
        comp = _component or ("ChmSel" if op == "get_selection" else "ChoiceMap")
        detail.setdefault("outer_constructor", self.comp)
        sig = (comp, op, self.cls, symptom)
        self.ctx.note("violating_lookups")
        if sig in self.term_sigs:
            return
        self.term_sigs.add(sig)  # one report per term and signature (the runner caps per signature)
        self.ctx.fail(comp, op, self.cls, symptom, dict(term=self.name, mode=self.mode, **detail))

    def exc(self, op, e, probe):
        self.n += 1
        if accepted_exception(e, self.ref):
            self.ctx.note("lookups_excluded_unsupported")
            return
        self.fail(op, f"exception:{type(e).__name__}", probe=_pp(probe), message=str(e)[:200],
                  _component=raising_function(e))

    def compare_value(self, op, probe, exp, got):
        """exp: ref_lookup dict; got: None (absent) or (value, flag)"""
        self.n += 1
        if exp["unspec"]:
            self.ctx.note("lookups_unspecified")
            return
        if exp["present"] or exp["sub_present"]:
            self.hits += 1
        if exp["valid"]:
            if got is None:
                self.fail(op, "missing_valid_entry", probe=_pp(probe), expected=float(exp["value"]))
                return
            val, flag = got
            if np.shape(flag) != () or not bool(flag):
                self.fail(op, "missing_valid_entry", probe=_pp(probe), expected=exp["value"], got_flag=flag)
                return
            if np.shape(val) != np.shape(exp["value"]) or not np.array_equal(np.asarray(val, np.float64), exp["value"]):
                self.fail(op, "value_mismatch", probe=_pp(probe), expected=exp["value"], got=val)
        else:
            if got is not None:
                val, flag = got
                if bool(np.any(flag)):
                    self.fail(op, "spurious_valid_entry", probe=_pp(probe), got=val, got_flag=flag,
                              statically_present_in_model=exp["present"])


def raising_function(e):
    """innermost library frame of the traceback, e.g. 'Static.get_inner_map' (coarse and stable)."""
    tb = e.__traceback__
    name = None
    while tb is not None:
        code = tb.tb_frame.f_code
        fn = code.co_filename
        if fn.endswith("choice_map.py") or fn.endswith("functional_types.py"):
            q = getattr(code, "co_qualname", code.co_name)
            if "<lambda>" in q or "<locals>" in q:
                q = q.split(".<")[0]
            name = q
        tb = tb.tb_next
    return name or "choice_map"


def _pp(probe):
    return [":" if isinstance(c, slice) else c for c in probe]


_FAILED = object()


def check_eager(ctx, t, tier):
    L = lib()
    NoValue = L["NoValue"]
    ref = build_ref(t, make_alloc())
    name = term_str(t)
    # --- build
    try:
        chm = build_lib(t, make_alloc(), lambda x: L["jnp"].asarray(x))
    except Exception as e:  # noqa: BLE001
        if accepted_exception(e, ref):
            ctx.note("terms_excluded_unsupported")
            ctx.ev(("eager", name), nontrivial=False)
            return None
        ctx.ev(("eager", name), nontrivial=True)
        Checker(ctx, t, ref, "eager").fail("build", f"exception:{type(e).__name__}", message=str(e)[:200])
        return None
    if ref.marks & {"value_and_submap", "shape_clash"}:
        # outside the finite-map model (documented unsupported, although this term did not raise)
        ctx.note("terms_excluded_unsupported")
        ctx.ev(("eager", name), nontrivial=False)
        return None
    ck = Checker(ctx, t, ref, "eager")
    probes = gen_probes(ref)
    costly = has_dynamic(t)
    # --- documented static facts
    ck.n += 1
    try:
        if t[0] == "mask" and t[1] == ("c", False) and not ref.entries and not has_dyn_switch(t) \
                and not chm.static_is_empty():
            # (a leaf that already carries a runtime flag may survive as Mask(v, False-array), a runtime
            #  switch as a switch of empty maps)
            ck.fail("static_is_empty", "mask_false_not_empty")
        if t == ("leaf", "empty") and not chm.static_is_empty():
            ck.fail("static_is_empty", "empty_not_empty")
        if chm.static_is_empty() and any(bool(np.any(e.valid)) for e in ref.entries):
            ck.fail("static_is_empty", "nonempty_reported_empty")
    except Exception as e:  # noqa: BLE001
        ck.exc("static_is_empty", e, ())
    subs = {}
    dead = set()  # prefixes at which get_submap raised: every longer address raises at the same step
    for k, probe in enumerate(probes):
        if any(probe[:i] in dead for i in range(1, len(probe))):
            ctx.note("lookups_below_raising_prefix")
            continue
        exp = ref_lookup(ref, probe)
        arg = _addr_arg(probe) if probe else ()
        # 1. sub-map: chm(addr) / get_submap(...), reached by one more step from the parent's
        #    sub-map when there is one (public __call__ / get_submap), else by the full path
        sub = _FAILED
        try:
            parent = subs.get(probe[:-1], _FAILED) if probe else _FAILED
            if not probe:
                sub = chm()
            elif parent is not _FAILED:
                sub = parent(probe[-1]) if k % 2 == 0 else parent.get_submap(probe[-1])
            else:
                sub = chm(arg) if k % 2 == 0 else chm.get_submap(*probe)
            subs[probe] = sub
            v = sub.get_value()
            hv = sub.has_value()
            ck.compare_value("get_submap", probe, exp, None if v is None else _norm(v))
            if hv != (v is not None):
                ck.fail("get_submap", "has_value_inconsistent", probe=_pp(probe))
            if not exp["unspec"] and exp["sub_valid"] and sub.static_is_empty():
                ck.fail("get_submap", "nonempty_reported_empty", probe=_pp(probe))
        except Exception as e:  # noqa: BLE001
            ck.exc("get_submap", e, probe)
            if not accepted_exception(e, ref):
                dead.add(probe)
        # 2./3. full-path chm[addr] and addr in chm.  Costly (runtime-indexed) terms: both forms on
        #    every address in or above an entry and on short addresses, one alternating form elsewhere.
        both = (not costly) or exp["sub_present"] or len(probe) <= 1
        do_item = both or k % 2 == 0
        do_in = both or k % 2 == 1
        got_item = "skip"
        if do_item:
            try:
                got_item = _norm(chm[arg])
            except NoValue:
                got_item = None
            except Exception as e:  # noqa: BLE001
                got_item = "exc"
                ck.exc("getitem", e, probe)
            if got_item != "exc":
                ck.compare_value("getitem", probe, exp, got_item)
        if do_in:
            try:
                isin = arg in chm
                ck.n += 1
                if not exp["unspec"]:
                    if exp["valid"] and not isin:
                        ck.fail("contains", "missing_valid_entry", probe=_pp(probe))
                    if got_item not in ("exc", "skip") and (got_item is not None) != bool(isin):
                        ck.fail("contains", "inconsistent_with_getitem", probe=_pp(probe), contains=bool(isin))
                    if not isin and sub is not _FAILED and sub.has_value():
                        ck.fail("contains", "inconsistent_with_get_submap", probe=_pp(probe))
            except Exception as e:  # noqa: BLE001
                ck.exc("contains", e, probe)
    # --- full-slice lookups
    for probe in slice_probes(ref):
        try:
            got = _norm(chm[tuple(probe)])
        except NoValue:
            got = None
        except Exception as e:  # noqa: BLE001
            ck.exc("getitem_slice", e, probe)
            continue
        ck.n += 1
        exps = [ref_lookup(ref, tuple(i if isinstance(c, slice) else c for c in probe)) for i in range(N)]
        if got is None:
            if any(x["valid"] for x in exps):
                ck.fail("getitem_slice", "missing_valid_entry", probe=_pp(probe))
            continue
        val, flag = got
        if np.shape(val) != (N,):
            ck.fail("getitem_slice", "value_mismatch", probe=_pp(probe), got=val)
            continue
        flag = np.broadcast_to(flag, (N,))
        for i, x in enumerate(exps):
            if x["valid"] and not (bool(flag[i]) and float(val[i]) == float(x["value"])):
                ck.fail("getitem_slice", "value_mismatch", probe=_pp(probe), index=i, got=val, got_flag=flag)
                break
            if not x["valid"] and bool(flag[i]):
                ck.fail("getitem_slice", "spurious_valid_entry", probe=_pp(probe), index=i)
                break
    # --- get_selection
    try:
        sel = chm.get_selection()
    except Exception as e:  # noqa: BLE001
        sel = None
        ck.exc("get_selection", e, ())
    if sel is not None:
        valid_static = {e.static_part() for e in ref.entries if bool(np.any(e.valid))}
        present_static = {e.static_part() for e in ref.entries}
        for probe in probes:
            if any(not isinstance(c, str) for c in probe):
                continue
            try:
                got = bool(sel[probe]) if len(probe) != 1 else bool(sel[probe[0]])
                got2 = (probe in sel) if len(probe) != 1 else (probe[0] in sel)
            except Exception as e:  # noqa: BLE001
                ck.exc("get_selection", e, probe)
                continue
            ck.n += 1
            if got != bool(got2):
                ck.fail("get_selection", "getitem_vs_contains", probe=_pp(probe))
            if probe in valid_static and not got:
                plain = any(e.static_part() == probe and len(e.key) == len(probe) and bool(np.any(e.valid))
                            for e in ref.entries)
                ck.fail("get_selection",
                        "address_not_selected" if plain else "address_under_index_level_not_selected",
                        probe=_pp(probe))
            elif probe not in present_static and got:
                ck.fail("get_selection", "foreign_address_selected", probe=_pp(probe))
    ctx.ev(("eager", name), nontrivial=bool(ref.entries) and ck.hits > 0, n=ck.n)
    ctx.note("lookups", ck.n)
    return ck


# ---- jit mode: every runtime flag / index of the term and every probe index is traced


def check_jit(ctx, t, tier):
    L = lib()
    jax, jnp, NoValue = L["jax"], L["jnp"], L["NoValue"]
    ref = build_ref(t, make_alloc())
    name = term_str(t)
    if ref.marks & {"value_and_submap", "shape_clash"}:
        return
    # collect the runtime values in builder order
    rec = []

    def dv_rec(x):
        rec.append(np.asarray(x))
        return jnp.asarray(x)

    try:
        build_lib(t, make_alloc(), dv_rec)
    except Exception:  # noqa: BLE001
        return  # reported (or excluded) by the eager pass
    probes = [p for p in gen_probes(ref)]
    static = {}

    def f(dyn_args, idx):
        it = iter(dyn_args)
        chm = build_lib(t, make_alloc(), lambda x: next(it))
        outs = []
        for k, probe in enumerate(probes):
            addr = tuple(idx[c] if isinstance(c, int) else c for c in probe)
            try:
                v = chm[_addr_arg(addr) if addr else ()]
            except NoValue:
                static[k] = None
                continue
            except Exception as e:  # noqa: BLE001
                static[k] = e
                continue
            static[k] = len(outs)
            Mask = L["Mask"]
            if isinstance(v, Mask):
                outs.append((jnp.asarray(v.value), jnp.asarray(v.primal_flag())))
            else:
                outs.append((jnp.asarray(v), jnp.asarray(True)))
        return outs

    ck = Checker(ctx, t, ref, "jit")
    try:
        outs = jax.jit(f)([jnp.asarray(x) for x in rec], jnp.arange(N, dtype=jnp.int32))
    except Exception as e:  # noqa: BLE001
        if accepted_exception(e, ref):
            ctx.note("terms_excluded_unsupported")
        else:
            ck.fail("build", f"exception:{type(e).__name__}", message=str(e)[:200])
        ctx.ev(("jit", name), nontrivial=False)
        return
    outs = [(np.asarray(a), np.asarray(b)) for a, b in outs]
    for k, probe in enumerate(probes):
        exp = ref_lookup(ref, probe)
        s = static.get(k)
        if isinstance(s, Exception):
            ck.exc("getitem", s, probe)
            continue
        ck.compare_value("getitem", probe, exp, None if s is None else outs[s])
    ctx.ev(("jit", name), nontrivial=bool(ref.entries) and ck.hits > 0, n=ck.n)
    ctx.note("lookups_jit", ck.n)
    ctx.note("terms_jit")


# =============================================================================================
# cases

CHUNK = {"quick": 50, "thorough": 250}


def _run_chunk(terms, tier, seed, first_index):
    def run(ctx):
        stride = BOUNDS[tier]["jit_stride"]
        for j, (pool, t) in enumerate(terms):
            ck = check_eager(ctx, t, tier)
            ctx.note("terms")
            ctx.note("terms_" + pool)
            if ck is not None and ck.hits > 0 and len(ck.ref.entries) >= 2:
                ctx.sample(dict(term=term_str(t), model=[
                    dict(address=[repr(c) if not isinstance(c, (str, int)) else c for c in e.key],
                         value=e.value, valid=e.valid) for e in build_ref(t, make_alloc()).entries]))
            if ck is not None and has_dynamic(t) and (first_index + j) % stride == 0:
                check_jit(ctx, t, tier)

    return run


def cases(tier, seed):
    terms = enumerate_terms(tier)
    sub = int(os.environ.get("VERIF_SUBSET", "0") or 0)
    if sub:
        terms = terms[::sub]
    size = CHUNK[tier]
    # group by pool and outer constructor so that case ids describe their content
    groups = {}
    for pool, t in terms:
        groups.setdefault((pool, outer_kind(t)), []).append((pool, t))
    index = 0
    for (pool, kind), ts in groups.items():
        for c in range(0, len(ts), size):
            chunk = ts[c:c + size]
            yield Case(
                f"{pool}/{kind}/{c // size:03d}",
                _run_chunk(chunk, tier, seed, index),
                dict(pool=pool, outer=kind, terms=len(chunk), first=term_str(chunk[0][1]), last=term_str(chunk[-1][1])),
            )
            index += len(chunk)
