"""shared construction of BFS-based property modules"""
from __future__ import annotations

from ..common import Case
from .. import grammar


def programs(tier: str, want=None, continuous=True, regen_only=False):
    """BFS program set: statics, every depth-1 combinator, and depth-2 pairs (quick: a fixed slice)."""
    cat = grammar.catalog(tier, continuous=continuous)
    out = []
    d2 = 0
    for n in cat:
        if regen_only and not n.regen_ok:
            continue
        if want is not None and not (want & n.kinds()):
            continue
        d = n.depth()
        if tier == "quick" and _n_sites(n) > 6:
            continue  # quick: edit trees stay small; the large programs are explored in thorough
        if d <= 1:
            out.append(n)
        else:
            d2 += 1
            if tier == "thorough" or d2 % 8 == 0:
                out.append(n)
    return out


def _n_sites(node):
    from ..grammar import ref_enumerate

    a = node.arg_alphabet()[0]
    try:
        first = ref_enumerate(node, a, n_cont=1, limit=5000)
    except Exception:
        return 99
    return max((len(R.visited()) for _, _, R in first), default=0)


def make_cases(prop, kinds, tier, seed, progs, bounds=None, wide_args=False):
    def mk(node):
        def run(ctx):
            from ..bfs import Explorer

            b = dict(bounds or {})
            if wide_args and node.depth() <= 1 and tier == "quick":
                # three argument tuples and every argument change for the shallow programs (e.g. both
                # flag values of a mask, both branches of a switch)
                b.setdefault("args", 3)
            ex = Explorer(ctx, node, tier, seed, {prop}, kinds=kinds, bounds=b or None, all_arg_changes=wide_args)
            ex.run()

        return run

    for node in progs:
        yield Case(node.name, mk(node), dict(program=node.name, kinds=sorted(node.kinds())))
