"""C36 - Stateful interpreter is transparent for unhandled primitives; initial_style_bind round trip.

Bounded exhaustive exploration over the E5 function grammar (mc/fgrammar.py):

  A. every function x every input tuple (2 values per argument): `stateful(f)(handler, *args)` with a handler
     whose `handles()` always answers False must equal ordinary evaluation `f(*args)` - pytree structure, dtype,
     shape, value - and must never call `dispatch`.  A rotating subset is also run as `jax.jit(stateful(f))`.
  B. initial_style_bind round trip: `w = initial_style_bind(prim)(f)` must evaluate to `f(*args)` eagerly, under
     `jax.jit`, under the stateful interpreter with the non-handling handler (eager and inside jit); `jax.vmap` is
     attempted and counted (no batching rule is defined for InitialStylePrimitive: NotImplementedError is the
     documented-by-construction outcome and is not a violation; if it succeeds it must agree with vmap(f)).
  B'. closure variant of every function: the wrapped function closes over the first argument of the enclosing
     function, which is a tracer while the enclosing function is staged (stateful / jit): the captured value
     reaches the primitive as a constant operand and the result must still be f(*args).
  C. hand-written composites: the wrapped primitive inside cond / switch / scan / while / fori bodies, nested
     inside another initial-style primitive, inside a nested jit, with static keyword arguments, with pytree
     arguments - eagerly, jitted and through the interpreter; and 11 composites whose wrapped function closes over
     a value that is a TRACER at bind time (an intermediate, an enclosing argument, a cond/switch operand, a
     scan/while carry, next to concrete constants, nested primitives, no explicit arguments at all).
"""

from __future__ import annotations

import itertools

from ..common import Case, close
from .. import fgrammar as G

PROPERTY = "C36"
LEVEL = "exploration"
RULE = (
    "one case per E5 function (control flow, literals, closed constants, multi-result primitives, custom_jvp/vjp, "
    "nested jit, outputs that are inputs/literals/constants, tuple/dict outputs, unused and pytree arguments); per "
    "case all 2^n input tuples x modes {stateful eager, stateful under jit (subset), initial_style_bind eager / jit "
    "/ vmap / under stateful / under jit(stateful)}; plus one case per hand-written composite placing the wrapped "
    "primitive inside control-flow bodies; distinct = (function, mode, input); non-trivial = the function has at "
    "least one equation or a direct output (input/literal/constant)"
)
ASSUMPTIONS = [
    "ordinary eager evaluation f(*args) is the reference; Python scalars and weakly typed arrays are compared after jnp.asarray",
    "float tolerance 1e-4 relative (jit vs eager reassociation), exact for int/bool/structure",
    "InitialStylePrimitive defines no batching / differentiation rule: vmap raising NotImplementedError is counted, not failed",
    "keyword arguments of an initial_style_bind-wrapped function are static (hashable) parameters of staging.stage; array keywords are not exercised",
]
BOUNDS = {
    "quick": {"grammar_depth": 2, "inputs": "all 2^n (2 values per argument)", "jit_stateful_every": 6, "isp_jit_every": 3, "closure_jit_every": 12, "composites": 25, "closure_variant": "first argument closed over, every function"},
    "thorough": {"grammar_depth": 3, "inputs": "all 2^n (2 values per argument)", "jit_stateful_every": 4, "isp_jit_every": 1, "closure_jit_every": 2, "composites": 25, "closure_variant": "first argument closed over, every function"},
}
JOBS = {"quick": 6, "thorough": 16}

_PRIM = None


def _prim():
    global _PRIM
    if _PRIM is None:
        from genjax._src.core.compiler.initial_style_primitive import InitialStylePrimitive

        _PRIM = InitialStylePrimitive("e5_isp")
    return _PRIM


def _handler():
    from genjax._src.core.compiler.interpreters.stateful import StatefulHandler

    class Nothing(StatefulHandler):
        def __init__(self):
            self.asked = 0
            self.dispatched = 0

        def handles(self, primitive):
            self.asked += 1
            return False

        def dispatch(self, primitive, *args, **kwargs):
            self.dispatched += 1
            raise AssertionError("dispatch called although handles() answered False")

    return Nothing()


def _norm(v):
    import jax.numpy as jnp
    import numpy as np

    return np.asarray(jnp.asarray(v))


def compare(expected, actual) -> tuple[str, dict] | None:
    """None if equal; else (symptom, detail)."""
    import jax.tree_util as jtu
    import numpy as np

    le, te = jtu.tree_flatten(expected)
    la, ta = jtu.tree_flatten(actual)
    if te != ta:
        return "structure", {"expected": str(te), "actual": str(ta)}
    import jax.core as jc

    for k, (e, a) in enumerate(zip(le, la)):
        if isinstance(a, jc.Tracer):  # a stale tracer escaped instead of a value
            return "leaked_tracer", {"leaf": k, "actual": repr(a)[:200]}
        e = _norm(e)
        try:
            a = _norm(a)
        except Exception as ex:
            return "unconvertible:" + type(ex).__name__, {"leaf": k, "actual": repr(a)[:200]}
        if e.shape != a.shape:
            return "shape", {"leaf": k, "expected": e.shape, "actual": a.shape}
        if e.dtype != a.dtype:
            return "dtype", {"leaf": k, "expected": str(e.dtype), "actual": str(a.dtype)}
        ok = close(e, a) if e.dtype.kind == "f" else bool(np.all(e == a))
        if not ok:
            return "value", {"leaf": k, "expected": e, "actual": a}
    return None


TRACED = "closes_over_traced_value"


def _input_class(feats) -> str:
    if TRACED in feats:
        return TRACED
    corner = sorted(set(feats) & {"out_is_input", "out_is_literal", "out_is_const", "pytree_arg"})
    return "direct_outputs:" + ",".join(corner) if corner else "computed_outputs"


def _check(ctx, component, op, feats, fid, bits, expected, thunk, handler=None):
    """Run thunk, compare with expected, report.  Returns the value or None."""
    try:
        got = thunk()
    except Exception as e:
        ctx.fail(component, op, _input_class(feats), f"exception:{type(e).__name__}",
                 {"fn": fid, "input": bits, "error": str(e)[:400]})
        return None
    diff = compare(expected, got)
    if diff is not None:
        ctx.fail(component, op, _input_class(feats), diff[0], {"fn": fid, "input": bits, **diff[1]})
    if handler is not None and handler.dispatched:
        ctx.fail(component, op, _input_class(feats), "dispatch_called", {"fn": fid, "input": bits})
    return got


def run_function(ctx, spec, seed, index, tier):
    import jax
    import jax.numpy as jnp
    import jax.tree_util as jtu
    from genjax._src.core.compiler.initial_style_primitive import initial_style_bind
    from genjax._src.core.compiler.interpreters.stateful import stateful

    b = BOUNDS[tier]
    f = spec.build()
    feats = spec.features
    fid = spec.id
    nontrivial = True  # every function has an equation or a direct output
    inputs = list(G.all_inputs(spec, seed))
    refs = {bits: f(*args) for bits, args in inputs}
    ctx.sample({"fn": fid, "features": sorted(feats), "inputs": len(inputs)})
    ctx.note("functions")

    # ---- A. transparency
    sf = stateful(f)
    for bits, args in inputs:
        h = _handler()
        ctx.ev((fid, "stateful:eager", bits), nontrivial)
        _check(ctx, "StatefulInterpreter", "stateful:eager", feats, fid, bits, refs[bits],
               lambda: sf(h, *args), h)
        ctx.note("handles_queries", h.asked)
        ctx.outcome((fid, bits))
    if index % b["jit_stateful_every"] == 0:
        h = _handler()
        jsf = jax.jit(lambda *a: sf(h, *a))
        for bits, args in inputs:
            ctx.ev((fid, "stateful:jit", bits), nontrivial)
            _check(ctx, "StatefulInterpreter", "stateful:jit", feats, fid, bits, refs[bits],
                   lambda: jsf(*args), h)

    # ---- B. initial_style_bind round trip
    w = initial_style_bind(_prim())(f)
    sw = stateful(w)
    for bits, args in inputs:
        ctx.ev((fid, "isp:eager", bits), nontrivial)
        _check(ctx, "initial_style_bind", "isp:eager", feats, fid, bits, refs[bits], lambda: w(*args))
        h = _handler()
        ctx.ev((fid, "isp:stateful", bits), nontrivial)
        _check(ctx, "initial_style_bind", "isp:stateful", feats, fid, bits, refs[bits],
               lambda: sw(h, *args), h)
    if index % b["isp_jit_every"] == 0:
        jw = jax.jit(w)
        for bits, args in inputs:
            ctx.ev((fid, "isp:jit", bits), nontrivial)
            _check(ctx, "initial_style_bind", "isp:jit", feats, fid, bits, refs[bits], lambda: jw(*args))
        if index % (2 * b["isp_jit_every"]) == 0:
            h = _handler()
            jsw = jax.jit(lambda *a: sw(h, *a))
            for bits, args in inputs:
                ctx.ev((fid, "isp:jit_stateful", bits), nontrivial)
                _check(ctx, "initial_style_bind", "isp:jit_stateful", feats, fid, bits, refs[bits],
                       lambda: jsw(*args), h)
    # ---- B'. closure variant: the wrapped function closes over the FIRST argument of the enclosing function
    # (all arguments when there is only one) - a concrete value eagerly, a tracer while the enclosing function is
    # being staged by the interpreter / jit: the captured value reaches the primitive as a constant operand and
    # the result must still be f(*args).
    nclosed = 1 if len(inputs[0][1]) > 1 else len(inputs[0][1])

    def outer(*vals):
        closed, rest = vals[:nclosed], vals[nclosed:]
        return initial_style_bind(_prim())(lambda *r: f(*closed, *r))(*rest)

    cfeats = set(feats) | {TRACED}
    so = stateful(outer)
    for bits, args in inputs:
        ctx.ev((fid, "isp_closure:eager", bits), nontrivial)
        _check(ctx, "InitialStylePrimitive", "isp_closure:eager", cfeats, fid, bits, refs[bits], lambda: outer(*args))
        h = _handler()
        ctx.ev((fid, "isp_closure:stateful", bits), nontrivial)
        _check(ctx, "InitialStylePrimitive", "isp_closure:stateful", cfeats, fid, bits, refs[bits],
               lambda: so(h, *args), h)
    if index % b["closure_jit_every"] == 1:
        jo = jax.jit(outer)
        h = _handler()
        jso = jax.jit(lambda *a: so(h, *a))
        for bits, args in inputs:
            ctx.ev((fid, "isp_closure:jit", bits), nontrivial)
            _check(ctx, "InitialStylePrimitive", "isp_closure:jit", cfeats, fid, bits, refs[bits], lambda: jo(*args))
            ctx.ev((fid, "isp_closure:jit_stateful", bits), nontrivial)
            _check(ctx, "InitialStylePrimitive", "isp_closure:jit_stateful", cfeats, fid, bits, refs[bits],
                   lambda: jso(*args), h)

    # vmap (once per function, over the batch of both alphabet values of every argument)
    alphas = spec.alphabets(seed)
    batched = tuple(jtu.tree_map(lambda a0, a1: jnp.stack([a0, a1]), al[0], al[1]) for al in alphas)
    try:
        got = jax.vmap(w)(*batched)
    except NotImplementedError:
        ctx.note("vmap_unsupported_NotImplementedError")
    except Exception as e:
        ctx.note("vmap_other_exception_" + type(e).__name__)
    else:
        ctx.note("vmap_supported")
        try:
            expected = jax.vmap(f)(*batched)
        except Exception:
            expected = None
        if expected is not None:
            ctx.ev((fid, "isp:vmap"), nontrivial)
            diff = compare(expected, got)
            if diff is not None:
                ctx.fail("initial_style_bind", "isp:vmap", _input_class(feats), diff[0], {"fn": fid, **diff[1]})


# ----------------------------------------------------------------------------------------------
# C. composites: the wrapped primitive inside other primitives' bodies


def _composites():
    import jax
    import jax.numpy as jnp
    from jax import lax
    from genjax._src.core.compiler.initial_style_primitive import initial_style_bind

    I = G._impl()
    cV = G.const_value("cV")
    cF = G.const_value("cF")
    isb = initial_style_bind(_prim())

    def g1(a):  # closes over a constant, returns a literal next to a value
        return a * cF + 1.0

    def g2(a, v):
        return {"s": jnp.sum(v) * a, "lit": 2.0, "in": v, "c": cV}

    def g3(v):  # multi-result primitive with a dropped result inside the wrapped function
        return I["topi"](v), I["sortW"](v, cV)

    w1, w2, w3 = isb(g1), isb(g2), isb(g3)

    def k_static(a, *, k):
        return a * k + 1.0

    comps = {}

    def add(name, args, plain, wrapped, feats):
        comps[name] = (args, plain, wrapped, feats)

    add("in_cond", ("b", "x"),
        lambda b, x: lax.cond(b, lambda a: g1(a), lambda a: a, x),
        lambda b, x: lax.cond(b, lambda a: w1(a), lambda a: a, x), ("cond",))
    add("in_switch", ("i", "x"),
        lambda i, x: lax.switch(i, [lambda a: g1(a), lambda a: -a, lambda a: g1(g1(a))], x),
        lambda i, x: lax.switch(i, [lambda a: w1(a), lambda a: -a, lambda a: w1(w1(a))], x), ("switch",))
    add("in_scan", ("x", "v"),
        lambda x, v: lax.scan(lambda c, e: (g1(c) + e, g2(c, v)["s"]), x, v),
        lambda x, v: lax.scan(lambda c, e: (w1(c) + e, w2(c, v)["s"]), x, v), ("scan",))
    add("in_fori", ("x",),
        lambda x: lax.fori_loop(0, 3, lambda k, a: g1(a), x),
        lambda x: lax.fori_loop(0, 3, lambda k, a: w1(a), x), ("fori",))
    add("in_while", ("x",),
        lambda x: lax.while_loop(lambda s: s[1] < 3, lambda s: (g1(s[0]), s[1] + 1), (x, 0)),
        lambda x: lax.while_loop(lambda s: s[1] < 3, lambda s: (w1(s[0]), s[1] + 1), (x, 0)), ("while",))
    add("in_jit", ("x", "v"),
        lambda x, v: jax.jit(lambda a, u: g2(a, u))(x, v),
        lambda x, v: jax.jit(lambda a, u: w2(a, u))(x, v), ("pjit", "out_is_literal", "out_is_const", "out_is_input"))
    add("nested_isp", ("x", "v"),
        lambda x, v: g2(g1(x), v),
        lambda x, v: isb(lambda a, u: w2(w1(a), u))(x, v), ("nested", "out_is_literal", "out_is_const", "out_is_input"))
    add("sequence", ("x", "v"),
        lambda x, v: (g1(x), g2(x, v), g3(v)),
        lambda x, v: (w1(x), w2(x, v), w3(v)), ("multi_result", "dropvar", "out_is_literal", "out_is_const", "out_is_input"))
    add("static_kwarg", ("x",),
        lambda x: k_static(x, k=3.0),
        lambda x: isb(k_static)(x, k=3.0), ("kwargs",))
    add("pytree_arg", ("p", "v"),
        lambda p, v: (p["a"] * 2.0, v[p["k"]], p),
        lambda p, v: isb(lambda p, v: (p["a"] * 2.0, v[p["k"]], p))(p, v), ("pytree_arg", "out_is_input"))
    add("no_args_used", ("x",),
        lambda x: (2.0, cV, True),
        lambda x: isb(lambda a: (2.0, cV, True))(x), ("out_is_literal", "out_is_const"))
    add("same_out_twice", ("x",),
        lambda x: (lambda r: (r, r, x))(g1(x)),
        lambda x: isb(lambda a: (lambda r: (r, r, a))(g1(a)))(x), ("out_duplicate", "out_is_input"))
    add("wrapped_custom_jvp_in_cond", ("b", "x"),
        lambda b, x: lax.cond(b, lambda a: I["cjvp"](a), lambda a: a, x),
        lambda b, x: lax.cond(b, lambda a: isb(I["cjvp"])(a), lambda a: a, x), ("cond", "custom_jvp"))
    add("wrapped_scan_in_isp", ("x", "v"),
        lambda x, v: I["scanb"](v, g1(x)),
        lambda x, v: isb(lambda a, u: I["scanb"](u, w1(a)))(x, v), ("scan", "nested"))
    # ---- the wrapped function closes over a value that is a tracer at bind time
    T = (TRACED,)

    def mk(wrap):
        """(plain, wrapped) pair of the same Python function: wrap = identity / initial_style_bind."""

        def intermediate(x, y):  # (a) an intermediate computed from the enclosing arguments
            scale = jnp.exp(x) + 1.0
            return wrap(lambda u: u * scale)(y)

        def argument(x, v):  # (b) an enclosing argument directly
            return wrap(lambda u: u * x + 1.0)(v)

        def cond_operand(b, x, y):  # (c) the operand of a cond branch
            return lax.cond(b, lambda a, c: wrap(lambda u: u * a + 1.0)(c), lambda a, c: a - c, x, y)

        def scan_carry(x, v):  # (d) the carry of a scan body
            return lax.scan(lambda c, e: (wrap(lambda u: u * 0.5 + c)(e), wrap(lambda u: u * c)(e)), x, v)

        def mixed_consts(x, v):  # a traced intermediate next to a concrete closed constant (operand order)
            s1 = jnp.sin(x)
            return wrap(lambda u: (u + cV) * s1 - cF)(v)

        def two_traced(x, y, v):  # two traced constants of different shape
            s1, s2 = x * 2.0, v + y
            return wrap(lambda u: {"a": u * s1, "b": s2 - u, "c": s2})(y)

        def nested(x, v):  # inner primitive closes over a parameter of the outer primitive
            return wrap(lambda a, u: wrap(lambda t: t * a + 1.0)(u))(x, v)

        def switch_operand(i, x):
            return lax.switch(i, [lambda a: wrap(lambda u: u + a)(2.0), lambda a: -a,
                                  lambda a: wrap(lambda u: u * a)(a)], x)

        def while_carry(x):
            return lax.while_loop(lambda s: s[1] < 3,
                                  lambda s: (wrap(lambda k: s[0] * 0.5 + k)(s[1]), s[1] + 1), (x, 0))

        def no_explicit_args(x, v):  # everything reaches the primitive as a constant operand
            return wrap(lambda: (x * 2.0, v + x, 2.0))()

        def in_jit(x, v):
            return jax.jit(lambda a, u: wrap(lambda t: t * a)(u))(x, v)

        return dict(
            traced_intermediate=(("x", "y"), intermediate),
            traced_argument=(("x", "v"), argument),
            traced_cond_operand=(("b", "x", "y"), cond_operand),
            traced_scan_carry=(("x", "v"), scan_carry),
            traced_mixed_consts=(("x", "v"), mixed_consts),
            traced_two_consts=(("x", "y", "v"), two_traced),
            traced_nested=(("x", "v"), nested),
            traced_switch_operand=(("i", "x"), switch_operand),
            traced_while_carry=(("x",), while_carry),
            traced_no_explicit_args=(("x", "v"), no_explicit_args),
            traced_in_jit=(("x", "v"), in_jit),
        )

    plain_fns = mk(lambda g: g)
    wrapped_fns = mk(isb)
    for cname, (cargs, pf) in plain_fns.items():
        add(cname, cargs, pf, wrapped_fns[cname][1], T)
    return comps


def run_composite(ctx, name, seed):
    import jax
    from genjax._src.core.compiler.interpreters.stateful import stateful

    args_names, plain, wrapped, feats = _composites()[name]
    fid = "composite:" + name
    comp = "InitialStylePrimitive" if TRACED in feats else "initial_style_bind"
    alphas = [G._pytree_alphabet(a, seed) for a in args_names]
    sw = stateful(wrapped)
    jw = jax.jit(wrapped)
    ctx.sample({"fn": fid, "features": list(feats)})
    for bits in itertools.product((0, 1), repeat=len(alphas)):
        args = tuple(al[b] for al, b in zip(alphas, bits))
        ref = plain(*args)
        ctx.ev((fid, "isp:eager", bits))
        _check(ctx, comp, "isp_composite:eager", feats, fid, bits, ref, lambda: wrapped(*args))
        ctx.ev((fid, "isp:jit", bits))
        _check(ctx, comp, "isp_composite:jit", feats, fid, bits, ref, lambda: jw(*args))
        h = _handler()
        ctx.ev((fid, "isp:stateful", bits))
        _check(ctx, comp, "isp_composite:stateful", feats, fid, bits, ref, lambda: sw(h, *args), h)
        h2 = _handler()
        ctx.ev((fid, "plain:stateful", bits))
        _check(ctx, "StatefulInterpreter", "stateful:eager", feats, fid, bits, ref, lambda: stateful(plain)(h2, *args), h2)
    h3 = _handler()
    jsw = jax.jit(lambda *a: sw(h3, *a))
    for bits in itertools.product((0, 1), repeat=len(alphas)):
        args = tuple(al[b] for al, b in zip(alphas, bits))
        ctx.ev((fid, "isp:jit_stateful", bits))
        _check(ctx, comp, "isp_composite:jit_stateful", feats, fid, bits, plain(*args), lambda: jsw(*args), h3)


COMPOSITE_NAMES = [
    "in_cond", "in_switch", "in_scan", "in_fori", "in_while", "in_jit", "nested_isp", "sequence", "static_kwarg",
    "pytree_arg", "no_args_used", "same_out_twice", "wrapped_custom_jvp_in_cond", "wrapped_scan_in_isp",
    "traced_intermediate", "traced_argument", "traced_cond_operand", "traced_scan_carry", "traced_mixed_consts",
    "traced_two_consts", "traced_nested", "traced_switch_operand", "traced_while_carry", "traced_no_explicit_args",
    "traced_in_jit",
]


def cases(tier: str, seed: int):
    for index, spec in enumerate(G.functions(tier)):
        yield Case(
            id=spec.id,
            run=(lambda ctx, spec=spec, index=index: run_function(ctx, spec, seed, index, tier)),
            describe=spec.describe(),
        )
    for name in COMPOSITE_NAMES:
        yield Case(id="composite:" + name, run=(lambda ctx, name=name: run_composite(ctx, name, seed)),
                   describe={"composite": name})
