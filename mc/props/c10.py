"""C10 - project splits the score along a selection.

Enumerated: catalog programs whose combinators support project (static, distributions, vmap, repeat,
scan and derived, switch/or_else/mix, dimap) x every state of the simulate tree x the selection
alphabet (none, all, each static address and prefix, complements, unions/intersections, wildcards).
Oracle: project(S) == sum of the reference log-density terms whose static address is selected;
project(all) == score; project(none) == 0; project(S) + project(~S) == score."""

from __future__ import annotations

from ..common import Case
from .. import grammar
from ..combo import project_op
from .c02 import hash_name
from ._bfsprop import _n_sites

PROPERTY = "C10"
LEVEL = "exploration"
RULE = (
    "programs x argument alphabet x states (leaves of the complete simulate tree) x selection alphabet; each = one "
    "real project call vs the reference sum of selected terms; distinct = (program,args,assignment,selection); "
    "non-trivial = selection splits the choices properly (or is all/none)"
)
ASSUMPTIONS = [
    "index levels are transparent to selections (library convention): at['a'] selects 'a' at every index",
    "reference model mc/grammar.py; programs bounded by the catalog",
]
BOUNDS = {"quick": dict(args=1, states=24), "thorough": dict(args=2, states=24)}
JOBS = {"quick": 14, "thorough": 16}


def cases(tier, seed):
    for node in grammar.catalog(tier, continuous=True):
        if not node.project_ok:
            continue
        if tier == "quick" and node.depth() >= 2 and (hash_name(node.name) % 3 != 1):
            continue
        if tier == "quick" and _n_sites(node) > 6:
            continue
        yield Case(node.name, (lambda n: (lambda ctx: project_op(ctx, n, tier, seed)))(node), dict(program=node.name))
