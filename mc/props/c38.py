"""C38 - Derived GFI methods and request combinators agree with the primitives.

Differential, bit-exact comparison of two ways of doing the same thing, on every state of the complete
simulate tree of each program and under every random outcome (both sides are run under the same
decision table of the randomness seam):
  propose          vs simulate (same key)
  importance       vs generate
  Trace.update / Trace.edit / Trace.project   vs the generative function's methods
  EmptyRequest     = identity with weight 0 when arguments do not change (NoChange tags), = an empty
                     Update otherwise
  StaticRequest    applies each addressed sub-request, other addresses behave as EmptyRequest
                     (compared with the equivalent Update / Regenerate on the whole function)
  DiffAnnotate(identity maps) = its inner request
This is an explicit-state exploration: states = traces, transitions = the compared request pairs."""

from __future__ import annotations

import jax
import jax.numpy as jnp
import numpy as np

from genjax import ChoiceMap, Diff, Selection, Update, Regenerate, EmptyRequest, StaticRequest, DiffAnnotate

from ..common import Case, close
from .. import grammar, gfi, seam
from ..grammar import Flip, component_of, ref_run
from ..harness import Prog, args_key, base_key, make_chm, to_jax_args, read_choices
from ..space import Space, Spec, State, alt_values, build_selection, make_argdiffs
from ..bfs import traces_equal, _tree_close

PROPERTY = "C38"
LEVEL = "model_checking"
RULE = (
    "programs x states (leaves of the simulate tree) x request pairs (derived method vs primitive; request combinator vs "
    "its expansion) x argument changes/taggings; both sides run under identical random outcomes; distinct = (program, "
    "state, pair, arguments); non-trivial = pair involving an edit of a state"
)
ASSUMPTIONS = ["equality is demanded bit-exactly for ints/bools and to 1e-4 relative for floats", "programs from the catalog (depth <= 2)"]
BOUNDS = {"quick": dict(states=4, programs=14), "thorough": dict(states=12, programs=60)}
JOBS = {"quick": 12, "thorough": 16}


def programs(tier):
    f = Flip()
    base = [
        f, grammar.one(f), grammar.two(f, f), grammar.nested_first(f), grammar.lit(f), grammar.kwdists(), grammar.tupaddr(f), grammar.flipnorm(),
        grammar.Vmap(f, 2, 0), grammar.Scan(grammar.kern(f), 2), grammar.Switch([grammar.one(f, "a"), grammar.two(f, f)]),
        grammar.MaskN(f), grammar.dimap_std(f), grammar.Mix([grammar.one(f, "p"), grammar.one(f, "q")]),
    ]
    if tier == "thorough":
        extra = [n for n in grammar.catalog("quick") if n.depth() >= 2]
        base += extra[::3]
    return base


def _same(a, b):
    return traces_equal(a["trace"], b["trace"]) and close(a["weight"], b["weight"]) and _tree_close(a["retdiff"], b["retdiff"])


def _run(node, tier, seed):
    def run(ctx):
        b = BOUNDS[tier]
        comp = component_of(node)
        prog = Prog(node, n_cont=2)
        key = base_key(seed)
        alph = grammar.rotate(node.arg_alphabet(), seed)[:2]
        space = Space(prog, key, alph)
        gf = prog.gf
        paths_all = space.paths_all

        # propose vs simulate, importance vs generate
        def f_sim(key, args):
            tr = gf.simulate(key, args)
            return tr.get_choices(), tr.get_score(), tr.get_retval()

        def f_prop(key, args):
            return gf.propose(key, args)

        def f_imp(key, chm, args):
            tr, w = gf.importance(key, chm, args)
            return tr, w

        def f_gen(key, chm, args):
            tr, w = gf.generate(key, chm, args)
            return tr, w

        with seam.seam(2):
            j_sim, j_prop, j_imp, j_gen = jax.jit(f_sim), jax.jit(f_prop), jax.jit(f_imp), jax.jit(f_gen)
        for args in alph:
            ja = to_jax_args(args)
            with seam.seam(2):
                paths, _ = seam.explore(lambda: j_sim(key, ja), max_paths=256)
                for p in paths[: b["states"] * 2]:
                    r2 = seam.run_with(lambda: j_prop(key, ja), p.table)[0]
                    ctx.ev((node.name, args_key(args), "propose", repr(sorted(p.table.items()))[:200]), nontrivial=p.n_branch > 0)
                    ctx.transition()
                    if not _tree_close(p.result, r2):
                        ctx.fail(comp, "propose", "vs_simulate", "differs", dict(program=node.name, args=args_key(args)))
            enum = prog.enumerate_ref(args)
            from .c03 import constraints_for, BOUNDS as B3

            for c in constraints_for(enum, B3["quick"])[:3]:
                chm = make_chm(c)
                try:
                    with seam.seam(2):
                        paths, _ = seam.explore(lambda: j_imp(key, chm, ja), max_paths=128)
                        for p in paths[: b["states"]]:
                            r2 = seam.run_with(lambda: j_gen(key, chm, ja), p.table)[0]
                            ctx.ev((node.name, args_key(args), "importance", gfi.asg_key(c), repr(sorted(p.table.items()))[:200]), nontrivial=True)
                            ctx.transition()
                            if not _tree_close(p.result, r2):
                                ctx.fail(comp, "importance", "vs_generate", "differs", dict(program=node.name, args=args_key(args), constraint=gfi.asg_key(c)))
                except Exception as e:
                    ctx.note(f"importance_raised_{type(e).__name__}")

        # states
        inits = space.initial_states()
        states = [st for st, _ in inits][: b["states"]]
        other = {args_key(a): a for a in alph}

        def edit_via(kind):
            """kind: how the edit is invoked"""

            def fn(key, tr, req, argdiffs):
                if kind == "request":
                    tr2, w, rd, bwd = req.edit(key, tr, argdiffs)
                elif kind == "gf":
                    tr2, w, rd, bwd = gf.edit(key, tr, req, argdiffs)
                elif kind == "trace":
                    tr2, w, rd, bwd = tr.edit(key, req, argdiffs)
                return dict(trace=tr2, weight=w, retdiff=rd)

            return fn

        def upd_via(kind):
            def fn(key, tr, chm, argdiffs):
                if kind == "gf":
                    tr2, w, rd, disc = gf.update(key, tr, chm, argdiffs)
                else:
                    tr2, w, rd, disc = tr.update(key, chm, argdiffs)
                return dict(trace=tr2, weight=w, retdiff=rd, discard=read_choices(disc, paths_all))

            return fn

        with seam.seam(2):
            J = {k: jax.jit(edit_via(k)) for k in ("request", "gf", "trace")}
            JU = {k: jax.jit(upd_via(k)) for k in ("gf", "trace")}
            JP = {"gf": jax.jit(lambda tr, sel: gf.project(key, tr, sel)), "trace": jax.jit(lambda tr, sel: tr.project(key, sel))}

        def both(fa, fb):
            """run fa exhaustively, fb under the same outcomes; yields (ra, rb)"""
            with seam.seam(2):
                paths, _ = seam.explore(fa, max_paths=64)
                out = []
                for p in paths:
                    out.append((p.result, seam.run_with(fb, p.table)[0]))
            return out

        for st in states:
            ret, R = ref_run(node, st.args, st.asg)
            sk = st.key()
            for tags, new_args in [("nochange", st.args), ("unknown", st.args)] + [("unknown", a) for k_, a in other.items() if k_ != args_key(st.args)][:1]:
                ad = make_argdiffs(to_jax_args(new_args), tags)
                lab = f"{tags}:{'same' if new_args is st.args else 'changed'}"
                # a single-address update if there is one
                cons = [{}]
                if R.terms:
                    t = R.terms[0]
                    av = alt_values(t)
                    if av:
                        cons.append({t[0]: av[0]})
                for c in cons:
                    chm = make_chm(c)
                    req = Update(chm)
                    try:
                        # Trace.edit / gf.edit / request.edit
                        for other_kind in ("gf", "trace"):
                            for ra, rb in both(lambda: J["request"](key, st.trace, req, ad), lambda: J[other_kind](key, st.trace, req, ad)):
                                ctx.ev((node.name, sk, "edit_via", other_kind, lab, gfi.asg_key(c)), nontrivial=True)
                                ctx.transition()
                                if not _same(ra, rb):
                                    ctx.fail(comp, f"{other_kind}.edit", lab, "differs_from_request.edit", dict(program=node.name, history=st.history, constraint=gfi.asg_key(c)))
                        # Trace.update vs gf.update vs Update request
                        for ra, rb in both(lambda: JU["gf"](key, st.trace, chm, ad), lambda: JU["trace"](key, st.trace, chm, ad)):
                            ctx.ev((node.name, sk, "update_via", lab, gfi.asg_key(c)), nontrivial=True)
                            ctx.transition()
                            if not (_same(ra, rb) and _tree_close(ra["discard"], rb["discard"])):
                                ctx.fail(comp, "Trace.update", lab, "differs_from_gf.update", dict(program=node.name, history=st.history, constraint=gfi.asg_key(c)))
                        for ra, rb in both(lambda: JU["gf"](key, st.trace, chm, ad), lambda: J["request"](key, st.trace, req, ad)):
                            ctx.transition()
                            if not _same(ra, rb):
                                ctx.fail(comp, "gf.update", lab, "differs_from_Update_request", dict(program=node.name, history=st.history, constraint=gfi.asg_key(c)))
                        # DiffAnnotate(identity)
                        da = DiffAnnotate(req)
                        for ra, rb in both(lambda: J["request"](key, st.trace, req, ad), lambda: J["request"](key, st.trace, da, ad)):
                            ctx.ev((node.name, sk, "annotate", lab, gfi.asg_key(c)), nontrivial=True)
                            ctx.transition()
                            if not _same(ra, rb):
                                ctx.fail(comp, "DiffAnnotate", lab, "identity_differs_from_inner", dict(program=node.name, history=st.history, constraint=gfi.asg_key(c)))
                    except (AssertionError, NotImplementedError) as e:
                        ctx.note(f"edit_unsupported_{type(e).__name__}")
                # EmptyRequest
                try:
                    er = EmptyRequest()
                    if tags == "nochange":
                        with seam.seam(2):
                            paths, _ = seam.explore(lambda: J["request"](key, st.trace, er, ad), max_paths=8)
                        ctx.ev((node.name, sk, "empty", lab), nontrivial=True)
                        ctx.transition()
                        r = paths[0].result
                        if len(paths) != 1 or not traces_equal(r["trace"], st.trace) or abs(float(np.asarray(r["weight"]))) > 0:
                            ctx.fail(comp, "EmptyRequest", lab, "not_identity", dict(program=node.name, history=st.history, weight=float(np.asarray(r["weight"]))))
                    else:
                        for ra, rb in both(lambda: J["request"](key, st.trace, er, ad), lambda: J["request"](key, st.trace, Update(ChoiceMap.empty()), ad)):
                            ctx.ev((node.name, sk, "empty", lab, args_key(new_args)), nontrivial=True)
                            ctx.transition()
                            if not _same(ra, rb):
                                ctx.fail(comp, "EmptyRequest", lab, "differs_from_empty_Update", dict(program=node.name, history=st.history))
                except (AssertionError, NotImplementedError) as e:
                    ctx.note(f"empty_unsupported_{type(e).__name__}")
                # StaticRequest on static programs
                if node.kind == "static" and R.terms:
                    top = []
                    for s_ in node.sites:
                        top.append(s_.addr)
                    for a in top[:2]:
                        at = a if isinstance(a, tuple) else (a,)
                        sub_terms = [t for t in R.terms if t[0][: len(at)] == at]
                        if not sub_terms:
                            continue
                        t = sub_terms[0]
                        av = alt_values(t)
                        if not av:
                            continue
                        inner_c = {t[0][len(at):]: av[0]}
                        sreq = StaticRequest({a: Update(make_chm(inner_c))})
                        ureq = Update(make_chm({t[0]: av[0]}))
                        try:
                            for ra, rb in both(lambda: J["request"](key, st.trace, sreq, ad), lambda: J["request"](key, st.trace, ureq, ad)):
                                ctx.ev((node.name, sk, "static_request", lab, repr(a)), nontrivial=True)
                                ctx.transition()
                                if not _same(ra, rb):
                                    ctx.fail(comp, "StaticRequest", lab, "differs_from_equivalent_Update", dict(program=node.name, history=st.history, addr=repr(a), wa=float(np.asarray(ra["weight"])), wb=float(np.asarray(rb["weight"]))))
                        except (AssertionError, NotImplementedError) as e:
                            ctx.note(f"static_request_unsupported_{type(e).__name__}")
            # project
            for sd in [("all",), ("none",)] + [("at", t[0][:1]) for t in R.terms[:1] if t[0] and isinstance(t[0][0], str)]:
                sel = build_selection(sd)
                try:
                    a = float(np.asarray(JP["gf"](st.trace, sel)))
                    b_ = float(np.asarray(JP["trace"](st.trace, sel)))
                    ctx.ev((node.name, sk, "project", repr(sd)), nontrivial=True)
                    ctx.transition()
                    if not close(a, b_):
                        ctx.fail(comp, "Trace.project", sd[0], "differs_from_gf.project", dict(program=node.name, a=a, b=b_))
                except NotImplementedError:
                    ctx.note("project_unsupported")
            ctx.state((node.name, sk))
        ctx.sample(dict(program=node.name, states=len(states)))

    return run


def cases(tier, seed):
    for node in programs(tier):
        yield Case(node.name, _run(node, tier, seed), dict(program=node.name))
