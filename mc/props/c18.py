"""C18 - Selections form a Boolean algebra over static addresses.

Enumerated (bounded-exhaustive, E6 term enumerator):

* every selection *term* over the atoms {all, none, leaf, at[x], at[y], at[x,y], at[...,x], at[x,...]}
  closed under ~, |, & up to term depth D (atoms have depth 1), each built three ways
  (builders only / raw dataclass constructors only / raw constructor on top of builder-built operands);
* for every term, every static address of length 0..3 over a 3-symbol alphabet {x, y, z} (z never occurs
  in an atom), queried through `S[p]`, `p in S`, `S(q)[r]` for every split p = q + r, and component-wise
  `S(c0)(c1)(c2).check()`;
* an `extend` family: t.extend(*prefix) for every term t of depth <= D-1 and 8 prefixes (with wildcards),
  plus one more operator layer on top of the extended selection.

Oracle: an independent evaluator of the *term* (not of the library object).  Atom semantics come from the
docstrings (at[p] selects p and everything below; leaf selects only the empty address; `...` matches any one
component); |, &, ~ are set union, intersection, complement on the 40-address universe (a 40-bit integer).
"""

from __future__ import annotations

import functools
import itertools

from ..common import Case

PROPERTY = "C18"
LEVEL = "exploration"
RULE = (
    "all selection terms over 8 atoms closed under ~,|,& up to the stated term depth (atoms = depth 1), each built "
    "with the simplifying builders, with raw dataclass constructors, and raw-on-top-of-builders; every term is "
    "queried at all 40 static addresses of length 0..3 over {x,y,z} via S[p], `p in S`, S(q)[r] for all splits and "
    "component-wise sub-selection; distinct = (term, build mode); non-trivial = term with >= 1 operator whose "
    "reference membership vector is neither empty nor full"
)
ASSUMPTIONS = [
    "atom semantics are those of the docstrings: at[p] selects p and every address below p, leaf selects only the "
    "empty address, `...` matches exactly one arbitrary component, all/none select everything/nothing (incl. ())",
    "addresses are static (string components); dynamic/index components and ChmSel are covered by C17/C10",
    "thorough tier: depth 4 is NOT complete (3.4e9 terms): depth <= 3 is complete; depth-4 terms are built from "
    "structurally distinct depth-3 library objects x depth<=2 objects (both orders) and from pairs of "
    "representatives of (reference membership vector, top-level class) classes of depth<=3 terms",
]
BOUNDS = {
    "quick": dict(term_depth=3, terms_complete=41624, atoms=8, addresses=40, address_len="0..3", alphabet=3,
                  build_modes=3, extend_prefixes=8, extend_over_depth=2),
    "thorough": dict(term_depth="3 complete + 4 pruned by structural/semantic dedup", atoms=8, addresses=40,
                     address_len="0..3", alphabet=3, build_modes=3, extend_prefixes=8, extend_over_depth=3),
}
JOBS = {"quick": 6, "thorough": 16}

ADDR_LEN = 3


# ---------------------------------------------------------------------------------------------
# reference model: a term is evaluated to a bitset over the address universe


class Universe:
    def __init__(self, seed: int):
        base = "abc"
        r = seed % 3
        self.syms = base[r:] + base[:r]  # x, y used by atoms; z foreign
        self.x, self.y, self.z = self.syms
        self.addrs = [p for n in range(ADDR_LEN + 1) for p in itertools.product(sorted(self.syms), repeat=n)]
        self.index = {p: i for i, p in enumerate(self.addrs)}
        self.full = (1 << len(self.addrs)) - 1
        # all splits (q, r) with len(q)+len(r) <= ADDR_LEN, grouped by q
        self.splits = {}
        for p in self.addrs:
            for k in range(len(p) + 1):
                self.splits.setdefault(p[:k], []).append(p[k:])
        x, y = self.x, self.y
        E = Ellipsis
        self.atom_patterns = [
            ("all", "ALL"),
            ("none", "NONE"),
            ("leaf", "LEAF"),
            (f"at[{x}]", (x,)),
            (f"at[{y}]", (y,)),
            (f"at[{x},{y}]", (x, y)),
            (f"at[...,{x}]", (E, x)),
            (f"at[{x},...]", (x, E)),
        ]
        self.prefixes = [(x,), (y,), (self.z,), (E,), (x, y), (E, x), (x, E), (E, E)]

    @staticmethod
    def matches(pattern, p) -> bool:
        """at[pattern] selects p iff p starts with pattern (`...` = any one component)."""
        if len(p) < len(pattern):
            return False
        return all(c is Ellipsis or c == p[i] for i, c in enumerate(pattern))

    def atom_bits(self, pat) -> int:
        bits = 0
        for i, p in enumerate(self.addrs):
            if pat == "ALL":
                m = True
            elif pat == "NONE":
                m = False
            elif pat == "LEAF":
                m = len(p) == 0
            else:
                m = self.matches(pat, p)
            if m:
                bits |= 1 << i
        return bits

    def extend_bits(self, prefix, bits: int) -> int:
        """reference of t.extend(*prefix): p = prefix-match + suffix, suffix selected by t."""
        out = 0
        n = len(prefix)
        for i, p in enumerate(self.addrs):
            if len(p) >= n and all(c is Ellipsis or c == p[j] for j, c in enumerate(prefix)):
                if bits >> self.index[p[n:]] & 1:
                    out |= 1 << i
        return out


def _fmt_prefix(prefix):
    return ",".join("..." if c is Ellipsis else c for c in prefix)


class Term:
    """A term with its reference bitset and the library objects of the three build modes."""

    __slots__ = ("s", "bits", "depth", "smart", "raw", "top", "nops", "topop")

    def __init__(self, s, bits, depth, smart, raw, top, nops, topop):
        self.s, self.bits, self.depth, self.smart, self.raw, self.top, self.nops, self.topop = (
            s, bits, depth, smart, raw, top, nops, topop)


def _lib():
    from genjax import Selection
    from genjax._src.core.generative import choice_map as cm

    return Selection, cm


def make_atoms(U: Universe):
    S, cm = _lib()
    out = []
    for name, pat in U.atom_patterns:
        if pat == "ALL":
            smart, raw = S.all(), cm.AllSel()
        elif pat == "NONE":
            smart, raw = S.none(), cm.NoneSel()
        elif pat == "LEAF":
            smart, raw = S.leaf(), cm.LeafSel()
        else:
            smart = S.at[pat if len(pat) > 1 else pat[0]]
            raw = cm.AllSel()
            for c in reversed(pat):
                raw = cm.StaticSel(raw, c)
        out.append(Term(name, U.atom_bits(pat), 1, smart, raw, smart, 0, "atom"))
    return out


def t_not(U, t: Term) -> Term:
    _, cm = _lib()
    return Term("~" + t.s, U.full ^ t.bits, t.depth + 1, ~t.smart, cm.ComplementSel(t.raw),
                cm.ComplementSel(t.smart), t.nops + 1, "ComplementSel")


def t_or(U, a: Term, b: Term) -> Term:
    _, cm = _lib()
    return Term(f"({a.s}|{b.s})", a.bits | b.bits, max(a.depth, b.depth) + 1, a.smart | b.smart,
                cm.OrSel(a.raw, b.raw), cm.OrSel(a.smart, b.smart), a.nops + b.nops + 1, "OrSel")


def t_and(U, a: Term, b: Term) -> Term:
    _, cm = _lib()
    return Term(f"({a.s}&{b.s})", a.bits & b.bits, max(a.depth, b.depth) + 1, a.smart & b.smart,
                cm.AndSel(a.raw, b.raw), cm.AndSel(a.smart, b.smart), a.nops + b.nops + 1, "AndSel")


def t_ext(U, prefix, t: Term) -> Term:
    _, cm = _lib()
    raw = t.raw
    top = t.smart
    for c in reversed(prefix):
        raw = cm.StaticSel(raw, c)
        top = cm.StaticSel(top, c)
    return Term(f"{t.s}.extend({_fmt_prefix(prefix)})", U.extend_bits(prefix, t.bits), t.depth + len(prefix),
                t.smart.extend(*prefix), raw, top, t.nops + 1, "StaticSel")


BINOPS = {"or": t_or, "and": t_and}


@functools.lru_cache(maxsize=None)
def levels(seed: int, upto: int):
    """terms of depth <= upto, in deterministic order, as a list (atoms first)."""
    U = Universe(seed)
    L = make_atoms(U)
    for d in range(2, upto + 1):
        prev = list(L)
        new = [t_not(U, t) for t in prev if t.depth == d - 1]
        for f in (t_or, t_and):
            for a in prev:
                for b in prev:
                    if a.depth == d - 1 or b.depth == d - 1:
                        new.append(f(U, a, b))
        L = prev + new
    return U, L


# ---------------------------------------------------------------------------------------------
# evaluation of one term against the reference
#
# Library objects are immutable and compare structurally, so the library's answers are executed once per
# structurally distinct object (per worker) and then compared with the oracle of *every* term that builds
# that object: two terms with different reference vectors that build the same object cannot both pass.

_answers: dict = {}


def _fail(ctx, t: Term, mode, op, p, expected, actual, extra=None):
    if isinstance(actual, BaseException):
        symptom = f"exception:{type(actual).__name__}"
    elif expected:
        symptom = "not_selected_but_should_be"
    else:
        symptom = "selected_but_should_not_be"
    ctx.fail(t.topop, op, mode, symptom,
             dict(term=t.s, address=list(p), expected=bool(expected), actual=repr(actual), **(extra or {})))


def _walk(U, sel, p, out):
    out[p] = sel.check()
    if len(p) < ADDR_LEN:
        for c in sorted(U.syms):
            _walk(U, sel(c), p + (c,), out)


def _run_walk(U, sel):
    """component-wise sub-selection S(c0)(c1)(c2).check() at all addresses -> (bitset | exception, n)"""
    try:
        got = {}
        _walk(U, sel, (), got)
    except Exception as e:  # the library documents no exception here
        return e, 1
    bits = 0
    for p, i in U.index.items():
        if got[p] is True:
            bits |= 1 << i
        elif got[p] is not False:
            return TypeError(f"check() returned non-bool {got[p]!r} at {p}"), len(got)
    return bits, len(got)


def _run_api(U, sel, walk_bits):
    """S[p], `p in S`, S(q)[r] for every split; returns (list of (via, address, value, extra), n)."""
    bad, n = [], 0
    try:
        for p, i in U.index.items():
            exp = bool(walk_bits >> i & 1)
            a = sel[p] if len(p) != 1 else sel[p[0]]  # bare-string form for length-1 addresses
            n += 1
            if a != exp:
                bad.append(("S[p]", p, a, {}))
            if len(p) >= 1:
                b = p in sel
                n += 1
                if b != exp:
                    bad.append(("p in S", p, b, {}))
        for q, rs in U.splits.items():
            if not q:
                continue
            sub = sel(q)
            for r in rs:
                exp = bool(walk_bits >> U.index[q + r] & 1)
                a = sub[r]
                n += 1
                if a != exp:
                    bad.append(("S(q)[r]", q + r, a, dict(q=list(q), r=list(r))))
    except Exception as e:
        bad.append(("exception", (), e, {}))
    return bad, n


def check_term(ctx, U: Universe, t: Term, full_api="all"):
    """Compare all build modes of `t` with the reference bitset at every address."""
    nontriv = t.nops > 0 and t.bits not in (0, U.full)
    for mode, sel in (("builders", t.smart), ("raw", t.raw), ("raw_top", t.top)):
        if mode == "raw_top" and t.nops == 0:
            continue
        n = 0
        ent = _answers.get(sel)
        if ent is None:
            ent = _answers[sel] = {}
            ent["walk"], k = _run_walk(U, sel)
            n += k
        else:
            ctx.note("oracle_comparisons_on_cached_object")
        w = ent["walk"]
        if isinstance(w, BaseException):
            _fail(ctx, t, mode, "membership", (), None, w)
            ctx.ev((t.s, mode), nontriv, n=n)
            continue
        # (1) membership == Boolean combination of the operands' memberships (oracle of THIS term)
        if w != t.bits:
            diff = w ^ t.bits
            for p, i in U.index.items():
                if diff >> i & 1:
                    _fail(ctx, t, mode, "membership", p, bool(t.bits >> i & 1), bool(w >> i & 1),
                          dict(via="S(c0)(c1)..check()", built=repr(sel)[:400]))
        # (2) S[p], `p in S` and S(q)[r] for every split agree with component-wise membership
        if (full_api == "all" or (full_api == "builders" and mode == "builders")) and "api" not in ent:
            bad, k = _run_api(U, sel, w)
            ent["api"] = True
            n += k
            for via, p, val, extra in bad:
                exp = bool(t.bits >> U.index[p] & 1) if via != "exception" else None
                _fail(ctx, t, mode, "subselection" if via == "S(q)[r]" else "membership", p, exp, val,
                      dict(via=via, **extra))
        ctx.ev((t.s, mode), nontriv, n=n)
        ctx.note("address_queries", n)
    ctx.note("terms")
    ctx.note(f"terms_depth_{t.depth}")


# ---------------------------------------------------------------------------------------------
# cases


def _case_low(seed):
    def run(ctx):
        _answers.clear()  # counts must not depend on how cases are distributed over workers
        U, L = levels(seed, 2)
        for t in L:
            check_term(ctx, U, t)
        ctx.sample(dict(term=L[20].s, selected=[list(p) for p, i in U.index.items() if L[20].bits >> i & 1][:8]))
        # equalities quoted in the Selection docstring (sub-selection returns the documented objects)
        S, _ = _lib()
        x, y = U.x, U.y
        ctx.ev("doc:S.at[x,y](x)==S.at[y]", False)
        if not (S.at[x, y](x) == S.at[y] and S.at[x, y](U.z) == S.none()):
            ctx.fail("StaticSel", "subselection", "builders", "docstring_equality", dict(term=f"at[{x},{y}]"))
    return run


def _case_d3(seed, opname, i, tier):
    api = "all" if tier == "thorough" else "builders"

    def run(ctx):
        _answers.clear()  # counts must not depend on how cases are distributed over workers
        U, L2 = levels(seed, 2)
        a = L2[i]
        f = BINOPS[opname]
        first = True
        for b in L2:
            if a.depth == 2 or b.depth == 2:
                t = f(U, a, b)
                check_term(ctx, U, t, api)
                if first and t.bits not in (0, U.full):
                    first = False
                    ctx.sample(dict(term=t.s, built=repr(t.smart)[:300],
                                    selected=[list(p) for p, k in U.index.items() if t.bits >> k & 1][:10]))
        if opname == "or" and a.depth == 2:
            check_term(ctx, U, t_not(U, a), api)
    return run


def _case_ext(seed, upto, chunk, nchunks):
    def run(ctx):
        _answers.clear()  # counts must not depend on how cases are distributed over workers
        U, L = levels(seed, upto)
        atoms = L[:8]
        mine = L[chunk::nchunks]
        for t in mine:
            for prefix in U.prefixes:
                e = t_ext(U, prefix, t)
                check_term(ctx, U, e, "all" if t.depth <= 2 else "builders")
                ctx.note("extend_terms")
                if t.depth <= 2:
                    check_term(ctx, U, t_not(U, e), "none")
                    for u in atoms:
                        for f in (t_or, t_and):
                            check_term(ctx, U, f(U, e, u), "none")
                            check_term(ctx, U, f(U, u, e), "none")
        if mine:
            e = t_ext(U, U.prefixes[5], mine[-1])
            ctx.sample(dict(term=e.s, built=repr(e.smart)[:300],
                            selected=[list(p) for p, k in U.index.items() if e.bits >> k & 1][:10]))
    return run


@functools.lru_cache(maxsize=None)
def _d4_operands(seed):
    """Operand pools for the pruned depth-4 layer (thorough)."""
    U, L3 = levels(seed, 3)
    # structurally distinct builder-built objects among depth-3 terms, not already present below
    seen = {}
    for t in L3:
        if t.depth <= 2:
            seen.setdefault(t.smart, t)
    low = list(seen.values())  # distinct objects of depth <= 2
    d3 = {}
    for t in L3:
        if t.depth == 3 and t.smart not in seen and t.smart not in d3:
            d3[t.smart] = t
    d3 = list(d3.values())
    reps = {}
    for t in L3:
        reps.setdefault((t.bits, type(t.smart).__name__), t)
    reps = list(reps.values())
    return U, low, d3, reps


def _case_d4_struct(seed, chunk, nchunks):
    def run(ctx):
        _answers.clear()  # counts must not depend on how cases are distributed over workers
        U, low, d3, _ = _d4_operands(seed)
        for t in d3[chunk::nchunks]:
            check_term(ctx, U, t_not(U, t), "none")
            for u in low:
                for f in (t_or, t_and):
                    check_term(ctx, U, f(U, t, u), "none")
                    check_term(ctx, U, f(U, u, t), "none")
        if chunk == 0:
            ctx.note("d4_distinct_depth3_objects", len(d3))
            ctx.note("d4_distinct_low_objects", len(low))
            ctx.cap("depth 4 not complete: operands restricted to distinct depth-3 objects x depth<=2 objects")
    return run


def _case_d4_reps(seed, chunk, nchunks):
    def run(ctx):
        _answers.clear()  # counts must not depend on how cases are distributed over workers
        U, _, _, reps = _d4_operands(seed)
        for a in reps[chunk::nchunks]:
            for b in reps:
                if a.depth == 3 or b.depth == 3:
                    for f in (t_or, t_and):
                        check_term(ctx, U, f(U, a, b), "none")
        if chunk == 0:
            ctx.note("d4_semantic_representatives", len(reps))
            ctx.cap("depth 4 not complete: pairs of (membership vector, top-level class) representatives only")
    return run


def cases(tier, seed):
    yield Case("depth<=2", _case_low(seed), dict(terms=144))
    for opname in ("or", "and"):
        for i in range(144):
            yield Case(f"d3:{opname}:{i:03d}", _case_d3(seed, opname, i, tier), dict(top=opname, left_operand_index=i))
    if tier == "quick":
        for c in range(6):
            yield Case(f"ext:{c}", _case_ext(seed, 2, c, 6), dict(family="extend", over_depth=2))
    else:
        for c in range(64):
            yield Case(f"ext:{c:02d}", _case_ext(seed, 3, c, 64), dict(family="extend", over_depth=3))
        for c in range(96):
            yield Case(f"d4s:{c:02d}", _case_d4_struct(seed, c, 96), dict(family="depth4-structural"))
        for c in range(96):
            yield Case(f"d4r:{c:02d}", _case_d4_reps(seed, c, 96), dict(family="depth4-representatives"))
