"""C02 - Scores are the exact joint log-density defined by the program.

Enumerated: catalog programs x argument alphabet x ALL complete choice assignments (finite supports
fully; continuous sites over the value alphabet).  For each assignment the real `assess` is run on a
choice map built through the public API and compared with the reference sum of log-density terms and
the reference return value; masked-off choices (mask False, inactive switch branches, masked
iteration steps) contribute nothing in the reference.  The simulate-tree of every program is also
walked: trace score == reference score of the trace's own choices.  For discrete programs the
reference probabilities are checked to sum to one (harness sanity)."""

from __future__ import annotations

import math

import numpy as np

from ..common import Case, close, HarnessError
from .. import grammar, gfi, seam
from ..bfs import component_of
from ..harness import Prog, args_key, base_key, cmp_ret, norm_ret
from ..space import Space

PROPERTY = "C02"
LEVEL = "exploration"
RULE = (
    "catalog programs x argument alphabet x every complete choice assignment enumerated by the reference "
    "(finite supports completely, continuous sites on a 2-3 value alphabet); each = one real assess call "
    "(+ one simulate-tree path) compared with the reference sum of log-density terms; distinct = (program,args,"
    "assignment); non-trivial = assignment with >= 1 random choice"
)
ASSUMPTIONS = [
    "reference log-densities are computed with numpy/float64 closed forms (independent of TFP)",
    "continuous values only from the standardized alphabet",
    "programs bounded by the catalog (combinator nesting depth <= 2)",
]
BOUNDS = {
    "quick": dict(args=2, max_assignments=64, n_cont=2),
    "thorough": dict(args=3, max_assignments=4096, n_cont=3),
}
JOBS = {"quick": 14, "thorough": 16}


def _run(node, tier, seed):
    def run(ctx):
        b = BOUNDS[tier]
        prog = Prog(node, n_cont=b["n_cont"])
        alph = grammar.rotate(node.arg_alphabet(), seed)[: b["args"] if node.depth() <= 1 or tier == "thorough" else 1]
        space = Space(prog, base_key(seed), alph)
        comp = component_of(node)
        feats = node.features()
        for args in alph:
            enum = prog.enumerate_ref(args)
            if len(enum) > b["max_assignments"]:
                ctx.cap(f"{len(enum)} assignments > {b['max_assignments']} for args {args_key(args)}: first {b['max_assignments']} explored")
                enum = enum[: b["max_assignments"]]
            if node.discrete:
                tot = sum(math.exp(R.score()) for _, _, R in prog.enumerate_ref(args)) if len(enum) <= 4096 else 1.0
                if abs(tot - 1.0) > 1e-6:
                    raise HarnessError(f"reference probabilities of {node.name} sum to {tot}")
            pool = {}
            for a2, _, _ in enum:
                for p_, v_ in a2.items():
                    pool.setdefault(p_, v_)
            for asg, ret, R in enum:
                assess_one(ctx, space, node, comp, args, asg, ret, R, pool, feats)
            ctx.sample(dict(program=node.name, args=args_key(args), assignments=len(enum), first=gfi.asg_key(enum[0][0]), ref_score=enum[0][2].score()))
        # trace scores of importance traces under partial constraints (the trace's score is the joint
        # log-density of ALL its choices, constrained or not)
        from .c03 import constraints_for, BOUNDS as B3
        from ..grammar import Missing as _Missing

        enum0 = prog.enumerate_ref(alph[0])
        singles = [c for c in constraints_for(enum0, B3["quick"]) if len(c) == 1][: (3 if tier == "quick" else 8)]
        for c in singles:
            try:
                outs = space.generate(alph[0], c, max_paths=256)
            except seam.TreeCapped:
                ctx.cap("importance tree capped")
                continue
            except Exception as e:
                ctx.note(f"importance_raised_{type(e).__name__}")
                continue
            for st, p in outs:
                ctx.ev((node.name, "importance", args_key(alph[0]), gfi.asg_key(c), gfi.asg_key(st.asg)), nontrivial=True)
                try:
                    _, R = grammar.ref_run(node, alph[0], st.asg)
                except _Missing:
                    continue
                if not close(st.score, R.score()):
                    ctx.fail(comp, "importance", "partial_constraint", "trace_score", dict(program=node.name, args=args_key(alph[0]), constraint=gfi.asg_key(c), trace=gfi.asg_key(st.asg), impl=st.score, ref=R.score()))
        # trace scores along the simulate tree
        try:
            tree = gfi.SimTree(prog, alph[0], base_key(seed), max_paths=b["max_assignments"] * 4)
        except seam.TreeCapped as e:
            ctx.cap(str(e))
            return
        for p in tree.paths:
            asg = tree.path_asg(p)
            ctx.ev((node.name, "sim", args_key(alph[0]), gfi.asg_key(asg)), nontrivial=p.n_branch > 0)
            gfi.check_trace_against_ref(_C(ctx, comp), node, alph[0], asg, p.result["score"], norm_ret(p.result["retval"]), "sim_path", "simulate")

    return run


def assess_one(ctx, space, node, comp, args, asg, ret, R, pool, feats, nontrivial=None):
    """one complete assignment through the real assess; if the library needs values for addresses
    that do not execute (inactive switch branches, masked-off calls) that is reported and the call is
    retried with such values supplied - they must not contribute."""
    k = (node.name, args_key(args), gfi.asg_key(asg))
    if _has_clash(asg):
        # value and sub-map at one static address: not representable as one choice map
        ctx.note("skipped_unrepresentable_assignment")
        return
    switchy = bool({"switch", "or_else", "mix"} & node.kinds())
    masky = "mask" in node.kinds()
    ctx.ev(k, nontrivial=(len(asg) > 0) if nontrivial is None else nontrivial)
    ic = "assess" + "".join(":" + f for f in sorted(feats & {"zero_length", "mask_concrete_false", "switch_concrete_idx"}))
    out = None
    try:
        out = space.assess(args, asg)
    except Exception as e:
        cls = ic + (":switch_minimal_sample" if switchy else (":masked_off_address_absent" if masky else ""))
        ctx.fail(comp, "assess", cls, f"exception:{type(e).__name__}", dict(program=node.name, args=args_key(args), asg=gfi.asg_key(asg), msg=str(e)[:300]))
        if switchy or masky:
            padded = dict(asg)
            for p_, v_ in pool.items():
                if p_ not in padded and not _has_clash({**padded, p_: v_}):
                    padded[p_] = v_
            try:
                out = space.assess(args, padded)
                ctx.ev(k + ("padded",), nontrivial=True)
                ctx.note("padded_assess")
            except Exception:
                ctx.note("padded_assess_raised")
                out = None
    if out is None:
        return
    s = float(np.asarray(out["score"]))
    if not close(s, R.score()):
        ctx.fail(comp, "assess", ic, "score", dict(program=node.name, args=args_key(args), asg=gfi.asg_key(asg), impl=s, ref=R.score()))
    if not cmp_ret(norm_ret(out["retval"]), ret):
        ctx.fail(comp, "assess", ic, "retval", dict(program=node.name, args=args_key(args), asg=gfi.asg_key(asg), impl=repr(norm_ret(out["retval"])), ref=repr(ret)))


def _has_clash(asg):
    from ..harness import static_part

    sps = {static_part(p) for p in asg}
    for a in sps:
        for b in sps:
            if len(a) < len(b) and b[: len(a)] == a:
                return True
    return False


class _C:
    def __init__(self, ctx, comp):
        self.ctx, self.comp = ctx, comp

    def fail(self, component, op, input_class, symptom, detail=None):
        self.ctx.fail(self.comp, op, input_class, symptom, detail)


def cases(tier, seed):
    for node in grammar.catalog(tier, continuous=True):
        if tier == "quick" and node.depth() >= 2 and (hash_name(node.name) % 2):
            continue
        yield Case(node.name, _run(node, tier, seed), dict(program=node.name))


def hash_name(s):
    import hashlib

    return int(hashlib.blake2b(s.encode(), digest_size=4).hexdigest(), 16)
