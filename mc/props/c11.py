"""C11 - vmap and repeat behave as independent elementwise calls.

Enumerated: vmap(inner, in_axes) for inner programs of the grammar x in_axes in {0, (0,None), (None,0),
(0,0)} x lengths n in {0,1,2,3}; repeat(inner, n).  Operations: complete simulate tree (element i
holds the i-th call's choices, score = sum, retval = stacked), assess over all assignments, importance
with indexed constraints in every address form (scalar index, array index, full slice, vmapped
builder - all must agree with the scalar-index form), update histories and IndexRequest(i, Update /
Regenerate) transitions at every index.  Oracle: the reference list comprehension over the inner
program (N independent calls); a constraint or edit at index i affects only element i; repeat(n) ==
vmap over n copies; zero-length maps are empty with score 0."""

from __future__ import annotations

import jax
import jax.numpy as jnp
import numpy as np

from ..common import Case, close
from .. import gfi, grammar, seam
from ..grammar import Flip, Repeat, Vmap, component_of, flipnorm, one, pair2, two, wrap, kwdists
from ..harness import Prog, args_key, base_key, norm_ret, to_jax_args
from genjax import ChoiceMapBuilder as C

PROPERTY = "C11"
LEVEL = "model_checking"
RULE = (
    "vmap/repeat programs x in_axes x lengths {0,1,2,3} x ops (simulate tree, assess, importance in four address forms, "
    "update and IndexRequest histories); distinct = (program,args,op,request,resulting assignment); non-trivial = n >= 1 "
    "and at least one random choice"
)
ASSUMPTIONS = [
    "reference = list comprehension over the inner program's reference semantics",
    "vectorized choice maps carry no length: out-of-range indices are not probed",
]
BOUNDS = {"quick": dict(lengths=[0, 1, 3], depth=1), "thorough": dict(lengths=[0, 1, 2, 3], depth=2)}
JOBS = {"quick": 14, "thorough": 16}


def vec2arg():
    """program taking ONE vector argument t = (t0, t1)"""
    from ..grammar import Site, Static, mixp, _f

    return Static(
        "vec2arg",
        1,
        [
            Site("a", "flip", lambda xp, args, env: (args[0][0],)),
            Site("b", "flip", lambda xp, args, env: (mixp(xp, _f(xp, env["a"]), args[0][1]),)),
        ],
        lambda xp, args, env: _f(xp, env["a"]) + 2.0 * _f(xp, env["b"]) + args[0][1],
        [(np.array([0.3, 0.6], dtype=np.float32),), (np.array([0.6, 0.45], dtype=np.float32),)],
        unit=False,
    )


class VmapAxis1(Vmap):
    """vmap along axis 1 of a (2, n) matrix argument (non-square: n = 3)"""

    def __init__(self, n):
        super().__init__(vec2arg(), n, (1,))
        self.name = f"vmap[{n},(1,)](vec2arg)"

    def arg_alphabet(self):
        n = self.n
        m1 = np.array([[0.3, 0.6, 0.45, 0.5][:n], [0.6, 0.45, 0.3, 0.7][:n]], dtype=np.float32)
        m2 = np.array([[0.45, 0.3, 0.6, 0.2][:n], [0.3, 0.7, 0.45, 0.6][:n]], dtype=np.float32)
        return [(m1,), (m2,)]


def programs(tier):
    f = Flip()
    out = [VmapAxis1(3)]
    ns = BOUNDS[tier]["lengths"]
    for n in ns:
        out.append(Vmap(f, n, 0))
        out.append(Repeat(f, n))
        if n in (0, 3) or tier == "thorough":
            out.append(Vmap(two(f, f), n, 0))
    for ia in [(0, None), (None, 0), (0, 0)]:
        out.append(Vmap(pair2(), 2, ia))
    out.append(Vmap(flipnorm(), 2, 0))
    out.append(Repeat(two(f, f), 2))
    out.append(Vmap(wrap(Vmap(f, 2, 0)), 2, 0))
    out.append(Vmap(wrap(grammar.Scan(grammar.kern(f), 2)), 2, 0))
    out.append(Repeat(wrap(grammar.MaskN(f)), 2))
    if tier == "thorough":
        out += [Vmap(kwdists(), 2, 0), Vmap(wrap(grammar.Switch([f, two(f, f)])), 2, 0), Repeat(flipnorm(), 3), Vmap(wrap(Repeat(f, 2)), 3, 0)]
    return out


def _forms(node, prog, args, key, ctx, comp):
    """the same indexed constraint written in four address forms gives the same trace and weight"""
    enum = prog.enumerate_ref(args)
    if not enum:
        return
    asg = enum[-1][0]
    leaf_paths = sorted({p[1:] for p in asg if p and isinstance(p[0], int)}, key=repr)
    n = node.n
    if n == 0 or not leaf_paths:
        return
    rest = leaf_paths[0]
    if any(isinstance(c, int) for c in rest):
        return
    vals = [asg.get((i,) + rest) for i in range(n)]
    if any(v is None for v in vals):
        return
    vec = jnp.asarray(np.array(vals))
    gf = prog.gf
    jargs = to_jax_args(args)

    def scalar_form():
        chm = C.n()
        for i in range(n):
            chm = chm | C[(i,) + rest].set(vec[i])
        return chm

    forms = {
        "scalar_index": scalar_form,
        "array_index": lambda: C[(jnp.arange(n),) + rest].set(vec),
        "full_slice": lambda: C[(slice(None),) + rest].set(vec),
        "vmapped_builder": lambda: jax.vmap(lambda v: C[rest].set(v))(vec),
    }
    results = {}
    for name, mk in forms.items():
        try:
            chm = mk()

            def run():
                tr, w = gf.importance(key, chm, jargs)
                return dict(w=w, score=tr.get_score(), retval=tr.get_retval(), leaves=jax.tree_util.tree_leaves(tr.get_choices()))

            with seam.seam(2):
                paths, _ = seam.explore(run, max_paths=256)
            results[name] = paths
            ctx.ev((node.name, args_key(args), "form", name), nontrivial=True)
        except Exception as e:
            ctx.fail(comp, "importance", f"form:{name}", f"exception:{type(e).__name__}", dict(program=node.name, args=args_key(args), msg=str(e)[:300]))
    base = results.get("scalar_index")
    if base is None:
        return
    def dist(paths):
        d = {}
        for p in paths:
            k = (round(float(p.result["w"]), 4), round(float(p.result["score"]), 4), tuple(np.asarray(l).astype(np.float64).round(4).tobytes() for l in jax.tree_util.tree_leaves(p.result["retval"])))
            d[k] = d.get(k, 0.0) + p.prob
        return d

    bd = dist(base)
    for name, paths in results.items():
        if name == "scalar_index":
            continue
        d = dist(paths)
        if set(d) != set(bd) or any(abs(d[k] - bd[k]) > 1e-6 for k in d):
            ctx.fail(comp, "importance", f"form:{name}", "outcome_distribution_differs_from_scalar_index_form", dict(program=node.name, args=args_key(args), n=len(d), base=len(bd)))


def _run(node, tier, seed):
    def run(ctx):
        from ..bfs import Explorer
        from . import c02, c03, c04

        comp = component_of(node)
        c04._run(node, tier, seed)(ctx)
        c02._run(node, tier, seed)(ctx)
        if node.n > 0:
            c03._run(node, tier, seed)(ctx)
            prog = Prog(node, n_cont=2)
            for args in node.arg_alphabet()[:1]:
                _forms(node, prog, args, base_key(seed), ctx, comp)
            kinds = ("update", "index")
            Explorer(ctx, node, tier, seed, {"C05", "C01", "C07"}, kinds=kinds, bounds=dict(depth=BOUNDS[tier]["depth"], init_cap=4, args=2)).run()

    return run


def cases(tier, seed):
    for node in programs(tier):
        yield Case(node.name, _run(node, tier, seed), dict(program=node.name))
