"""C03 - Importance weights equal the log-density of the constrained choices.

Enumerated: catalog programs x argument alphabet x partial constraints = restrictions t|S of every
complete reference assignment t to subsets S of its addresses (quick: |S| <= 1, one pair, full, empty;
thorough: all subsets when <= 6 addresses, else |S| <= 2 + full + empty); the free sites of each
importance call are enumerated completely through the seam.  Oracle per path: the trace agrees with
the constraint at every constrained address present in the trace; weight == sum of the reference
log-densities of exactly those constrained choices; empty constraint => 0; full constraint => score;
for discrete programs the free choices are distributed as the reference prior given the constraint
(sum of path probabilities per outcome == exp(score - weight))."""

from __future__ import annotations

import itertools
import math
from collections import defaultdict

import numpy as np

from ..common import Case, close
from .. import grammar, gfi, seam
from ..bfs import component_of, _val_eq
from ..grammar import Missing, ref_run
from ..harness import Prog, args_key, base_key, cmp_ret, norm_ret, static_part
from ..space import Space
from .c02 import _has_clash, hash_name
from ._bfsprop import _n_sites

PROPERTY = "C03"
LEVEL = "model_checking"
RULE = (
    "catalog programs x argument alphabet x partial constraints (restrictions of every complete reference "
    "assignment to address subsets); every outcome of the unconstrained sites enumerated via the randomness seam; "
    "distinct = (program,args,constraint,resulting assignment); non-trivial = constraint non-empty or >= 1 free site"
)
ASSUMPTIONS = [
    "reference log-densities numpy/float64; continuous constraint values from the standardized alphabet",
    "programs bounded by the catalog (combinator nesting depth <= 2)",
]
BOUNDS = {
    "quick": dict(args=1, max_constraints=10, subset_size=1, pairs=1, n_cont=2, max_paths=256),
    "thorough": dict(args=2, max_constraints=200, subset_size=2, pairs=12, n_cont=2, max_paths=4096),
}
JOBS = {"quick": 14, "thorough": 16}


def constraints_for(enum, b):
    """distinct partial assignments, simplest first"""
    seen, out = set(), []

    def add(c):
        k = gfi.asg_key(c)
        if k not in seen and not _has_clash(c):
            seen.add(k)
            out.append(c)

    add({})
    for asg, _, R in enum:
        paths = list(asg)
        for p in paths:
            add({p: asg[p]})
    for asg, _, R in enum:
        add(dict(asg))
    npairs = 0
    for asg, _, R in enum:
        paths = list(asg)
        if len(paths) <= 6 and b["subset_size"] >= 2:
            for r in range(2, len(paths)):
                for S in itertools.combinations(paths, r):
                    add({p: asg[p] for p in S})
        else:
            for S in itertools.combinations(paths, 2):
                if npairs >= b["pairs"]:
                    break
                n0 = len(out)
                add({p: asg[p] for p in S})
                npairs += len(out) - n0
    return out


def _run(node, tier, seed):
    def run(ctx):
        b = BOUNDS[tier]
        prog = Prog(node, n_cont=b["n_cont"])
        alph = grammar.rotate(node.arg_alphabet(), seed)[: b["args"]]
        space = Space(prog, base_key(seed), alph)
        comp = component_of(node)
        for args in alph:
            enum = prog.enumerate_ref(args)
            cons = constraints_for(enum, b)
            if len(cons) > b["max_constraints"]:
                ctx.cap(f"{len(cons)} distinct constraints > {b['max_constraints']}: simplest {b['max_constraints']} explored")
                # keep empty, singles first, and the full ones
                cons = cons[: b["max_constraints"]]
            for c in cons:
                lab = "empty" if not c else ("single" if len(c) == 1 else "multi")
                try:
                    outs = space.generate(args, c, max_paths=b["max_paths"])
                except seam.TreeCapped as e:
                    ctx.cap(f"importance tree capped for {gfi.asg_key(c)}")
                    continue
                except Exception as e:
                    ctx.fail(comp, "importance", lab, f"exception:{type(e).__name__}", dict(program=node.name, args=args_key(args), constraint=gfi.asg_key(c), msg=str(e)[:300]))
                    continue
                ctx.transition(len(outs))
                mass = defaultdict(float)
                expect = {}
                for st, p in outs:
                    k = (node.name, args_key(args), gfi.asg_key(c), gfi.asg_key(st.asg))
                    ctx.ev(k, nontrivial=bool(c) or p.n_branch > 0)
                    ctx.state(k)
                    ctx.outcome(gfi.asg_key(st.asg))
                    det = dict(program=node.name, args=args_key(args), constraint=gfi.asg_key(c), trace=gfi.asg_key(st.asg))
                    try:
                        ret, R = ref_run(node, args, st.asg)
                    except Missing as m:
                        ctx.fail(comp, "importance", lab, "choices:missing_address", dict(det, missing=repr(m.path)))
                        continue
                    if set(st.asg) - set(R.visited()):
                        ctx.fail(comp, "importance", lab, "choices:extra_address", dict(det, extra=sorted(map(repr, set(st.asg) - set(R.visited())))))
                    for p_, v in c.items():
                        if p_ in st.asg and not _val_eq(st.asg[p_], v):
                            ctx.fail(comp, "importance", lab, "choices:constraint_not_installed", dict(det, path=repr(p_)))
                    if not close(st.score, R.score()):
                        ctx.fail(comp, "importance", lab, "score", dict(det, impl=st.score, ref=R.score()))
                    if not cmp_ret(st.retval, ret):
                        ctx.fail(comp, "importance", lab, "retval", dict(det, impl=repr(st.retval), ref=repr(ret)))
                    w = float(np.asarray(p.result["weight"]))
                    wref = sum(t[1] for t in R.terms if t[0] in c)
                    if not close(w, wref):
                        ctx.fail(comp, "importance", lab, "weight", dict(det, impl=w, ref=wref))
                    if not c and abs(w) > 1e-6:
                        ctx.fail(comp, "importance", "empty", "weight_nonzero", dict(det, impl=w))
                    if c and set(c) >= set(R.visited()) and not close(w, st.score):
                        ctx.fail(comp, "importance", "full", "weight_ne_score", dict(det, impl=w, score=st.score))
                    kk = gfi.asg_key(st.asg)
                    mass[kk] += p.prob
                    expect[kk] = math.exp(R.score() - wref) if R.score() > -1e30 else 0.0
                if node.discrete:
                    bad = [(k, mass[k], expect[k]) for k in mass if abs(mass[k] - expect[k]) > 1e-5]
                    if bad:
                        ctx.fail(comp, "importance", lab, "free_choice_distribution", dict(program=node.name, args=args_key(args), constraint=gfi.asg_key(c), first=bad[:3]))
            ctx.sample(dict(program=node.name, args=args_key(args), constraints=len(cons), example=gfi.asg_key(cons[min(1, len(cons) - 1)])))

    return run


def cases(tier, seed):
    for node in grammar.catalog(tier, continuous=True):
        if tier == "quick" and node.depth() >= 2 and (hash_name(node.name) % 3):
            continue
        if tier == "quick" and _n_sites(node) > 5:
            continue
        yield Case(node.name, _run(node, tier, seed), dict(program=node.name))
