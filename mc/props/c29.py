"""C29 - ADEV estimators are correct derivative estimators.

Enumerated: every exported ADEV primitive (and `baseline(.)`, user `reinforce(.)`, `add_cost`) x a program
grammar (templates below) x a parameter alphabet.  For every program the *complete probability tree*
of `expectation(f).jvp_estimate(key, Dual(theta, 1.0))` is explored through the randomness seam
(discrete sites: every outcome with its exact probability; continuous sites: every element of the
seam's standardized alphabet).  The same program text is run by an independent float64 interpreter
(`RefI`) that enumerates every outcome of every site, so that the exact expectation G(theta) of the
program, its derivative (central differences on the float64 closed form) and - where the estimator
is a deterministic function of the sampled randomness - the exact per-path tangent are known.

Oracles per (program, theta):
 (0) sum_paths P == 1
 (E) sum_paths P * primal == G(theta)                     (enumeration-only programs: one path, primal == G)
 (U) sum_paths P * tangent == sum_leaves pc * { d/dtheta[pe*pd*V] + pe*pd * sum_s (V - c_s - b_s) * d/dtheta log q_s }
     (pe/pd: probabilities of enumerated / sampled discrete outcomes, pc: alphabet weight of the
     continuous sites with epsilon held fixed, s: continuous score-function sites with the sample
     pinned).  Without continuous score-function sites this is dG/dtheta: exact unbiasedness.
 (D) when no sampled site follows an enumerated one: the distribution of the primal over paths
     equals the distribution of the program value (the enumerated sites summed out)
 (F) additionally, when the program has no discrete sampled site: per path (primal, tangent) equals
     (value, pathwise derivative with the same epsilon [+ score term at the pinned sample])
 (G) grad_estimate == tangent of jvp_estimate on every path (same key => same decision table)
 (S) Expectation.estimate == primal of jvp_estimate on every path
"""

from __future__ import annotations

import itertools
import math
import os

import numpy as np
import jax
import jax.numpy as jnp
from tensorflow_probability.substrates import jax as tfp

from ..common import Case
from .. import adevseam, seam
from ..adevseam import tclose, weighted_multiset_diff, table_key
from ..harness import base_key

import genjax.adev as A
from genjax.adev import Dual, expectation

tfd = tfp.distributions

PROPERTY = "C29"
LEVEL = "exploration"
RULE = (
    "cases = (template, primitive[, second primitive]); each case = complete probability tree of jvp_estimate / "
    "grad_estimate per theta of the alphabet (every outcome of every discrete site, every alphabet element of every "
    "continuous site); distinct = (program, theta, decision table); non-trivial = the library produced an estimate "
    "that was compared with the float64 reference (programs whose estimator raises are counted trivial)"
)
ASSUMPTIONS = [
    "TFP single-site samplers are correct for the parameters they receive; distinct keys are independent, identical keys comonotone",
    "continuous sites are explored on the standardized alphabets Z/U/K of the seam only; for normal_reinforce, "
    "geometric_reinforce and baseline(normal_reinforce) only the estimator formula per alphabet sample is checked "
    "(tangent == d/dtheta value + (value - baseline) * d/dtheta logpdf(sample), sample pinned); the integral over the "
    "continuous sample is mathematics and is not explored",
    "beta_implicit: TFP's Beta sampler is replaced by an explicit differentiable function of the concentrations "
    "(mc/adevseam.py); what is decided is that ADEV propagates the sampler's own pathwise derivative",
    "exact derivatives are central differences (h=1e-5) of float64 closed forms, compared at 1e-3; primals at 1e-4",
    "the coupling of continuation randomness across the branches of an enumeration primitive is implementation "
    "defined; after an enumerated site only expectations (E),(U) are demanded",
]
BOUNDS = {
    "quick": dict(thetas=[0.3, 0.6], n_cont=3, primitives=19,
                  single_templates="arith, cond_val, cost, const x all 19; ret, cond, cond_lit x 2-3 primitives",
                  pair_templates="seq: {flip_enum, flip_reinforce, normal_reparam} x 7 partners in both orders; "
                                 "dep, condprim: the 9 pairs of those three + 2 mixed pairs each"),
    "thorough": dict(thetas=[0.3, 0.6, 0.45], n_cont=3, primitives=19, single_templates="all 7 x all 19",
                     pair_templates="seq, dep, condprim x all 361 ordered pairs"),
}
JOBS = {"quick": 8, "thorough": 16}

H = 1e-5
TOL_P = 1e-4
TOL_T = 1e-3


# --------------------------------------------------------------------------------------------
# primitive specifications: library call + independent reference semantics


def _sig(z):
    return 1.0 / (1.0 + math.exp(-z))


class Spec:
    name = "?"
    kind = "?"  # enum | score | reparam | formula
    cont = False

    def lib(self, a):
        raise NotImplementedError

    def base(self, a):  # baseline value (reference), 0 when not wrapped
        return 0.0


class FlipSpec(Spec):
    def __init__(self, name, prim, kind):
        self.name, self.prim, self.kind = name, prim, kind

    def lib(self, a):
        return self.prim(a)

    def lib_val(self, raw):
        return jnp.where(raw, 2.0, -1.0)

    def lib_pred(self, raw):
        return raw

    def options(self, a, n):
        return [(True, a), (False, 1.0 - a)]

    def ref_val(self, raw):
        return 2.0 if raw else -1.0

    def ref_pred(self, raw):
        return bool(raw)


def _cat_probs(a, xp):
    if xp is np:
        return np.array([a, (1.0 - a) * 0.25, (1.0 - a) * 0.75])
    return jnp.array([a, (1.0 - a) * 0.25, (1.0 - a) * 0.75])


class CatSpec(Spec):
    TABLE = (1.0, -2.0, 0.5)

    def __init__(self, name, prim, kind):
        self.name, self.prim, self.kind = name, prim, kind

    def lib(self, a):
        return self.prim(_cat_probs(a, jnp))

    def lib_val(self, raw):
        t = self.TABLE
        return jnp.where(raw == 0, t[0], jnp.where(raw == 1, t[1], t[2]))

    def lib_pred(self, raw):
        return raw > 0

    def options(self, a, n):
        p = _cat_probs(a, np)
        return [(i, float(p[i])) for i in range(3)]

    def ref_val(self, raw):
        return self.TABLE[raw]

    def ref_pred(self, raw):
        return raw > 0


class NormalSpec(Spec):
    cont = True

    def __init__(self, name, prim, kind):
        self.name, self.prim, self.kind = name, prim, kind

    @staticmethod
    def params(a):
        return 2.0 * a - 0.5, 0.5 + a

    def lib(self, a):
        return self.prim(*self.params(a))

    def lib_val(self, raw):
        return raw

    def lib_pred(self, raw):
        return raw > 0.3

    def options(self, a, n):
        loc, sc = self.params(a)
        return [(loc + sc * z, None) for z in seam.Z_ALPHABET[:n]]

    def ref_val(self, raw):
        return raw

    def ref_pred(self, raw):
        return raw > 0.3

    def logpdf(self, raw, a):
        loc, sc = self.params(a)
        return -0.5 * ((raw - loc) / sc) ** 2 - math.log(sc) - 0.5 * math.log(2 * math.pi)


class MvDiagSpec(Spec):
    cont = True
    kind = "reparam"

    def __init__(self, name, prim):
        self.name, self.prim = name, prim

    def lib(self, a):
        return self.prim(jnp.array([a, 2.0 * a - 0.5]), jnp.array([0.5 + a, 1.0]))

    def lib_val(self, raw):
        return raw[0] + 0.5 * raw[1] ** 2

    def lib_pred(self, raw):
        return raw[0] > raw[1]

    def options(self, a, n):
        loc = np.array([a, 2.0 * a - 0.5])
        sd = np.array([0.5 + a, 1.0])
        return [(loc + sd * np.array(e), None) for e in itertools.product(seam.Z_ALPHABET[:n], repeat=2)]

    def ref_val(self, raw):
        return raw[0] + 0.5 * raw[1] ** 2

    def ref_pred(self, raw):
        return raw[0] > raw[1]


class MvFullSpec(MvDiagSpec):
    def lib(self, a):
        return self.prim(jnp.array([a, 2.0 * a - 0.5]), jnp.array([[1.0 + a, 0.3], [0.3, 0.5 + a * a]]))

    def options(self, a, n):
        mu = np.array([a, 2.0 * a - 0.5])
        L = np.linalg.cholesky(np.array([[1.0 + a, 0.3], [0.3, 0.5 + a * a]]))
        return [(mu + L @ np.array(e), None) for e in itertools.product(seam.Z_ALPHABET[:n], repeat=2)]


class UniformSpec(Spec):
    cont = True
    kind = "reparam"
    name = "uniform"

    def lib(self, a):
        return A.uniform()

    def lib_val(self, raw):
        return raw

    def lib_pred(self, raw):
        return raw > 0.5

    def options(self, a, n):
        return [(u, None) for u in seam.U_ALPHABET[:n]]

    def ref_val(self, raw):
        return raw

    def ref_pred(self, raw):
        return raw > 0.5


class GeometricSpec(Spec):
    cont = True
    kind = "formula"
    name = "geometric_reinforce"

    def lib(self, a):
        # the primitive takes the tuple of tfd.Geometric's positional parameters: (logits,)
        return A.geometric_reinforce((a,))

    def lib_val(self, raw):
        return raw

    def lib_pred(self, raw):
        return raw > 1.0

    def options(self, a, n):
        return [(k, None) for k in adevseam.K_ALPHABET[:n]]

    def ref_val(self, raw):
        return raw

    def ref_pred(self, raw):
        return raw > 1.0

    def logpdf(self, raw, a):
        p = _sig(a)
        return raw * math.log(1.0 - p) + math.log(p)


class BetaSpec(Spec):
    cont = True
    kind = "reparam"
    name = "beta_implicit"

    def lib(self, a):
        return A.beta_implicit(1.0 + a, 2.0 - a)

    def lib_val(self, raw):
        return raw

    def lib_pred(self, raw):
        return raw > 0.5

    def options(self, a, n):
        return [(float(adevseam.beta_transform(1.0 + a, 2.0 - a, u, np)), None) for u in seam.U_ALPHABET[:n]]

    def ref_val(self, raw):
        return raw

    def ref_pred(self, raw):
        return raw > 0.5


class BaselineSpec(Spec):
    """baseline(prim)(b, *prim_args) with b = 1.5 + a (the baseline itself depends on theta)."""

    def __init__(self, inner, args_of):
        self.inner = inner
        self.name = f"baseline({inner.name})"
        self.kind = inner.kind
        self.cont = inner.cont
        self.args_of = args_of
        self.prim = A.baseline(inner.prim)
        for m in ("lib_val", "lib_pred", "options", "ref_val", "ref_pred", "logpdf"):
            if hasattr(inner, m):
                setattr(self, m, getattr(inner, m))

    def lib(self, a):
        return self.prim(1.5 + a, *self.args_of(a))

    def base(self, a):
        return 1.5 + a


_reinforce_cat = A.reinforce(
    lambda key, probs: tfd.Categorical(probs=probs).sample(seed=key),
    lambda v, probs: tfd.Categorical(probs=probs).log_prob(v),
)


def _specs():
    flip_enum = FlipSpec("flip_enum", A.flip_enum, "enum")
    flip_mvd = FlipSpec("flip_mvd", A.flip_mvd, "score")
    flip_reinforce = FlipSpec("flip_reinforce", A.flip_reinforce, "score")
    flip_enum_parallel = FlipSpec("flip_enum_parallel", A.flip_enum_parallel, "enum")
    cat = CatSpec("categorical_enum_parallel", A.categorical_enum_parallel, "enum")
    rcat = CatSpec("reinforce(categorical)", _reinforce_cat, "score")
    normal_reparam = NormalSpec("normal_reparam", A.normal_reparam, "reparam")
    normal_reinforce = NormalSpec("normal_reinforce", A.normal_reinforce, "formula")
    mvd = MvDiagSpec("mv_normal_diag_reparam", A.mv_normal_diag_reparam)
    mvf = MvFullSpec("mv_normal_reparam", A.mv_normal_reparam)
    one = lambda a: (a,)
    out = [
        flip_enum, flip_reinforce, flip_mvd, flip_enum_parallel, cat, rcat,
        normal_reparam, normal_reinforce, mvd, mvf, UniformSpec(), GeometricSpec(), BetaSpec(),
        BaselineSpec(flip_reinforce, one), BaselineSpec(flip_enum, one), BaselineSpec(flip_mvd, one),
        BaselineSpec(rcat, lambda a: (_cat_probs(a, jnp),)),
        BaselineSpec(normal_reparam, NormalSpec.params), BaselineSpec(normal_reinforce, NormalSpec.params),
    ]
    return {s.name: s for s in out}


# --------------------------------------------------------------------------------------------
# the two interpreters of a program text


class LibI:
    xp = jnp

    def __init__(self, specs):
        self.specs = specs

    def draw(self, slot, a):
        return self.specs[slot].lib(a)

    def val(self, slot, raw):
        return self.specs[slot].lib_val(raw)

    def pred(self, slot, raw):
        return self.specs[slot].lib_pred(raw)

    def cond(self, p, ft, ff, *ops):
        return jax.lax.cond(p, ft, ff, *ops)

    def cost(self, w):
        A.add_cost(w)


class RefI:
    """float64 interpreter following a forced outcome assignment (by visit order)."""

    xp = np

    def __init__(self, specs, forced, pins, n_cont):
        self.specs, self.forced, self.pins, self.n = specs, forced, pins, n_cont
        self.assign = []  # (slot, idx, n_options, kind)
        self.pe = self.pd = self.pc = 1.0
        self.costs = 0.0
        self.fsites = []  # formula sites: dict(raw, logq, cb, base)

    def draw(self, slot, a):
        a = float(a)
        spec = self.specs[slot]
        opts = spec.options(a, self.n)
        i = len(self.assign)
        idx = self.forced[i] if i < len(self.forced) else 0
        self.assign.append((slot, idx, len(opts), spec.kind))
        raw, prob = opts[idx]
        if spec.kind == "enum":
            self.pe *= prob
        elif spec.kind == "score":
            self.pd *= prob
        else:
            self.pc *= 1.0 / len(opts)
            if spec.kind == "formula":
                k = len(self.fsites)
                if self.pins is not None:
                    raw = self.pins[k]
                self.fsites.append(dict(raw=raw, logq=spec.logpdf(raw, a), cb=self.costs, base=spec.base(a)))
        return raw

    def val(self, slot, raw):
        return float(self.specs[slot].ref_val(raw))

    def pred(self, slot, raw):
        return bool(self.specs[slot].ref_pred(raw))

    def cond(self, p, ft, ff, *ops):
        return ft(*ops) if p else ff(*ops)

    def cost(self, w):
        self.costs += float(w)


def ref_run(template, specs, theta, forced, pins, n_cont):
    I = RefI(specs, forced, pins, n_cont)
    I.V = float(template(I, float(theta))) + I.costs
    return I


def ref_leaves(template, specs, theta, n_cont):
    leaves, stack = [], [[]]
    while stack:
        forced = stack.pop()
        I = ref_run(template, specs, theta, forced, None, n_cont)
        leaves.append(I)
        for i in range(len(forced), len(I.assign)):
            for alt in range(1, I.assign[i][2]):
                stack.append([a[1] for a in I.assign[:i]] + [alt])
    return leaves


class Reference:
    """Everything the oracles need at one theta."""

    def __init__(self, template, specs, theta, n_cont):
        leaves = ref_leaves(template, specs, theta, n_cont)
        self.leaves = leaves
        self.G = sum(l.pe * l.pd * l.pc * l.V for l in leaves)
        self.total = sum(l.pe * l.pd * l.pc for l in leaves)
        self.has_score = any(k == "score" for l in leaves for (_, _, _, k) in l.assign)
        self.has_formula = any(l.fsites for l in leaves)
        self.only_enum = all(k == "enum" for l in leaves for (_, _, _, k) in l.assign)
        # (D)/(F) are valid when no sampled site follows an enumerated one
        self.valid_dist = True
        for l in leaves:
            seen_enum = False
            for (_, _, _, k) in l.assign:
                if k == "enum":
                    seen_enum = True
                elif seen_enum:
                    self.valid_dist = False
        # replay every leaf at theta +- h with its assignment and pinned samples
        self.ET = 0.0
        groups = {}
        for l in leaves:
            forced = [a[1] for a in l.assign]
            pins = [f["raw"] for f in l.fsites]
            lp = ref_run(template, specs, theta + H, forced, pins, n_cont)
            lm = ref_run(template, specs, theta - H, forced, pins, n_cont)
            assert [a[:2] for a in lp.assign] == [a[:2] for a in l.assign] == [a[:2] for a in lm.assign]
            d_w = (lp.pe * lp.pd * lp.V - lm.pe * lm.pd * lm.V) / (2 * H)
            d_ev = (lp.pe * lp.V - lm.pe * lm.V) / (2 * H)
            score = 0.0
            for f0, fp, fm in zip(l.fsites, lp.fsites, lm.fsites):
                score += (l.V - f0["cb"] - f0["base"]) * (fp["logq"] - fm["logq"]) / (2 * H)
            self.ET += l.pc * (d_w + l.pe * l.pd * score)
            gk = tuple((s, i) for (s, i, _, k) in l.assign if k != "enum")
            g = groups.setdefault(gk, dict(w=l.pd * l.pc, value=0.0, tangent=0.0))
            g["value"] += l.pe * l.V
            g["tangent"] += d_ev + l.pe * score
        self.groups = list(groups.values())


# --------------------------------------------------------------------------------------------
# program templates (the *inputs*; the same text is run by both interpreters)


def t_ret(I, th):
    x = I.draw(0, th)
    return I.val(0, x)


def t_arith(I, th):
    x = I.draw(0, 0.2 + 0.5 * th)
    v = I.val(0, x)
    return th * v * v + 3.0 * v - I.xp.sin(th) * v + th * th


def t_cond(I, th):
    x = I.draw(0, th)
    return I.cond(I.pred(0, x), lambda t: t * t, lambda t: -t / 2.0, th)


def t_cond_val(I, th):
    x = I.draw(0, th)
    v = I.val(0, x)
    return I.cond(I.pred(0, x), lambda t, u: t * u, lambda t, u: u - t * t, th, v)


def t_cond_lit(I, th):
    # cond on the sample whose operand is a constant
    x = I.draw(0, th)
    return th * I.cond(I.pred(0, x), lambda c: c * 2.0, lambda c: c + 1.0, 2.0)


def t_cost(I, th):
    I.cost(th * th)
    x = I.draw(0, th)
    v = I.val(0, x)
    I.cost(th * v)
    return 2.0 * v


def t_const(I, th):
    # parameter is a literal: tangents of literals are symbolic zeros
    x = I.draw(0, 0.35)
    return th * I.val(0, x)


def t_seq(I, th):
    x = I.draw(0, th)
    y = I.draw(1, 0.9 - th)
    vx, vy = I.val(0, x), I.val(1, y)
    return th * vx * vy + vy


def t_dep(I, th):
    x = I.draw(0, th)
    vx = I.val(0, x)
    a2 = 0.2 + 0.6 / (1.0 + I.xp.exp(-th * vx))
    y = I.draw(1, a2)
    return I.val(1, y) * (1.0 + th) + vx


def t_condprim(I, th):
    # a primitive inside a branch of a cond on an earlier sample
    x = I.draw(0, th)
    return I.cond(I.pred(0, x), lambda t: I.val(1, I.draw(1, 0.5 * t)) * t, lambda t: t * t, th)


SINGLE = dict(ret=t_ret, arith=t_arith, cond=t_cond, cond_val=t_cond_val, cond_lit=t_cond_lit, cost=t_cost, const=t_const)
PAIR = dict(seq=t_seq, dep=t_dep, condprim=t_condprim)

# quick tier selections (thorough = everything)
Q_SINGLE_ALL = ("arith", "cond_val", "cost", "const")
Q_SINGLE_FEW = {"ret": ("normal_reparam", "mv_normal_reparam"),
                "cond": ("flip_enum", "flip_reinforce", "normal_reparam"),
                "cond_lit": ("flip_enum", "flip_reinforce", "normal_reparam")}
Q_REPS = ("flip_enum", "flip_reinforce", "normal_reparam")
Q_PARTNERS = ("flip_enum", "flip_reinforce", "normal_reparam", "normal_reinforce", "mv_normal_diag_reparam",
              "baseline(flip_reinforce)", "reinforce(categorical)")


# --------------------------------------------------------------------------------------------


def _exc(e):
    return f"exception:{type(e).__name__}"


_HEALTH = {}


def _raises_alone(spec, n_cont):
    """Does the primitive's estimator raise on the simplest program (trace only, no compilation)?
    Pair programs containing such a primitive add nothing to the single-primitive cases that report it."""
    if spec.name not in _HEALTH:
        E = expectation(lambda th: t_arith(LibI([spec]), th))
        try:
            with seam.seam(n_cont=n_cont):
                jax.eval_shape(lambda k, th: E.jvp_estimate(k, Dual(th, 1.0)), jax.random.key(0), jnp.float32(0.3))
            _HEALTH[spec.name] = None
        except Exception as e:
            _HEALTH[spec.name] = _exc(e)
    return _HEALTH[spec.name]


def _run(tname, template, names, tier, seed):
    def run(ctx):
        adevseam.install()
        S = _specs()
        specs = [S[n] for n in names]
        comp = "+".join(dict.fromkeys(names))
        thetas = BOUNDS[tier]["thetas"]
        n_cont = BOUNDS[tier]["n_cont"]
        key = base_key(seed)
        prog = dict(template=tname, primitives=list(names))
        if len(names) > 1:
            broken = {sp.name: _raises_alone(sp, n_cont) for sp in specs}
            if any(broken.values()):
                ctx.ev((tname, names, "skipped"), nontrivial=False)
                ctx.note("pair_programs_skipped_primitive_raises_alone")
                return
        E = expectation(lambda th: template(LibI(specs), th))

        def f_jvp(k, th):
            return E.jvp_estimate(k, Dual(th, 1.0))

        def f_both(k, th):
            # same key => same choice points: one tree gives both estimates on every path
            return E.jvp_estimate(k, Dual(th, 1.0)), E.grad_estimate(k, (th,))

        def f_est(k, th):
            return E.estimate(k, (th,))

        with seam.seam(n_cont=n_cont):
            J_both = jax.jit(f_both)
            J_jvp = jax.jit(f_jvp)
            J_est = jax.jit(f_est)
        grad_ok = True
        est_ok = True

        for theta in thetas:
            th32 = jnp.float32(theta)
            ident = (tname, names, theta)
            ref = Reference(template, specs, theta, n_cont)
            # ---------------------------------------------------------------- the tree
            paths = None
            if grad_ok:
                try:
                    paths, total = adevseam.explore(lambda: J_both(key, th32), n_cont=n_cont)
                    duals = [p.result[0] for p in paths]
                    grads = [float(p.result[1][0]) for p in paths]
                except seam.TreeCapped as e:
                    ctx.cap(f"{tname}{names}: {e}")
                    continue
                except Exception:
                    grad_ok = None  # decide below which of the two raised
            if paths is None:
                try:
                    paths, total = adevseam.explore(lambda: J_jvp(key, th32), n_cont=n_cont)
                    duals = [p.result for p in paths]
                    grads = None
                except seam.TreeCapped as e:
                    ctx.cap(f"{tname}{names}: {e}")
                    continue
                except Exception as e:  # the estimator of an exported primitive must run on its documented inputs
                    ctx.ev((ident, "exception"), nontrivial=False)
                    ctx.note("estimator_raised")
                    # a primitive that already raises on the simplest program: one signature for all templates
                    icls = "any_program" if (len(names) == 1 and _raises_alone(specs[0], n_cont) == _exc(e)) else tname
                    ctx.fail(comp, "jvp_estimate", icls, _exc(e), dict(program=prog, theta=theta, error=str(e)[:300]))
                    break
                if grad_ok is None:
                    grad_ok = False
                    try:
                        with seam.seam(n_cont=n_cont):
                            jax.eval_shape(lambda k, th: E.grad_estimate(k, (th,)), key, th32)
                        err = "grad_estimate raised only together with jvp_estimate"
                        sym = "exception"
                    except Exception as e:
                        err, sym = str(e)[:300], _exc(e)
                    ctx.ev((ident, "grad-exception"), nontrivial=False)
                    ctx.fail(comp, "grad_estimate", tname, sym, dict(program=prog, theta=theta, error=err))
            ctx.note("trees")
            ctx.note("paths", len(paths))
            ctx.note("reference_leaves", len(ref.leaves))
            for p in paths:
                ctx.ev((ident, "jvp", table_key(p)))
            prim = [float(d.primal) for d in duals]
            tang = [float(d.tangent) for d in duals]
            prob = [p.prob for p in paths]
            detail = dict(program=prog, theta=theta, paths=[dict(prob=a, primal=b, tangent=c) for a, b, c in zip(prob, prim, tang)][:12])

            # ---------------------------------------------------------------- jvp_estimate oracles; first failing one is reported
            def jvp_verdict():
                if abs(total - 1.0) > 1e-6 or abs(ref.total - 1.0) > 1e-9:
                    return "sum_prob", dict(total=total, ref_total=ref.total)
                if ref.valid_dist:
                    d = weighted_multiset_diff([(a, (b,)) for a, b in zip(prob, prim)],
                                               [(g["w"], (g["value"],)) for g in ref.groups], (TOL_P,))
                    if d is not None:
                        return ("primal!=exact_expectation" if ref.only_enum else "primal"), dict(disagreement=d)
                    ctx.note("check_D_primal_per_path")
                e_primal = sum(a * b for a, b in zip(prob, prim))
                if not tclose(e_primal, ref.G, TOL_P):
                    return "primal_expectation", dict(library=e_primal, expected=ref.G)
                ctx.note("check_E_primal_expectation")
                if ref.valid_dist and not ref.has_score:
                    d = weighted_multiset_diff([(a, (b, c)) for a, b, c in zip(prob, prim, tang)],
                                               [(g["w"], (g["value"], g["tangent"])) for g in ref.groups], (TOL_P, TOL_T))
                    if d is not None:
                        return ("tangent!=exact_derivative" if ref.only_enum else "tangent"), dict(
                            disagreement=d, reference=[dict(w=g["w"], value=g["value"], tangent=g["tangent"]) for g in ref.groups][:12])
                    ctx.note("check_F_tangent_per_path")
                e_tangent = sum(a * b for a, b in zip(prob, tang))
                if not tclose(e_tangent, ref.ET, TOL_T):
                    return ("tangent_formula_expectation" if ref.has_formula else "tangent_expectation"), dict(library=e_tangent, expected=ref.ET)
                ctx.note("check_U_tangent_expectation")
                return None

            verdict = jvp_verdict()
            if verdict is not None:
                sym, extra = verdict
                # key hygiene: some path must consume as many distinct keys as the program has sampled sites
                lib_keys = max(len({s[0] for s in p.sites}) for p in paths)
                ref_sites = max(sum(1 for a in l.assign if a[3] != "enum") for l in ref.leaves)
                if lib_keys < ref_sites and sym != "sum_prob":
                    extra = dict(extra, consequence=sym, distinct_keys_consumed=lib_keys, sampled_sites=ref_sites)
                    sym = "key_reuse"
                    # by convention the earlier primitive is named: its continuation received the key it sampled with
                    ctx.fail(names[0], "jvp_estimate", tname, sym, dict(detail, **extra))
                else:
                    ctx.fail(comp, "jvp_estimate", tname, sym, dict(detail, **extra))
            if theta == thetas[0]:
                ctx.sample(dict(program=prog, theta=theta, n_paths=len(paths), G=ref.G, dG=ref.ET,
                                first_path=dict(prob=prob[0], primal=prim[0], tangent=tang[0])))
            # ---------------------------------------------------------------- grad_estimate
            if grads is not None:
                bad = None
                for p, g, t in zip(paths, grads, tang):
                    ctx.ev((ident, "grad", table_key(p)))
                    if not tclose(g, t, TOL_T):
                        bad = dict(grad=g, jvp_tangent=t, prob=p.prob)
                        break
                if bad is not None:
                    ctx.fail(comp, "grad_estimate", tname, "grad!=jvp_tangent", dict(detail, **bad))
                else:
                    ctx.note("check_G_grad_eq_jvp")
            # ---------------------------------------------------------------- estimate
            if est_ok:
                try:
                    epaths, etotal = adevseam.explore(lambda: J_est(key, th32), n_cont=n_cont)
                except Exception as e:
                    est_ok = False
                    ctx.ev((ident, "estimate-exception"), nontrivial=False)
                    ctx.fail("Expectation", "estimate", "any_program", _exc(e), dict(program=prog, theta=theta, error=str(e)[:300]))
                    epaths = None
                if epaths is not None:
                    # (sites whose result only feeds the tangent are dead code for `estimate`, so the two trees may
                    # differ in shape: compare the distributions of the value, not the decision tables)
                    for ep in epaths:
                        ctx.ev((ident, "estimate", table_key(ep)))
                    bad = None
                    if abs(etotal - 1.0) > 1e-6:
                        bad = dict(total=etotal)
                    else:
                        d = weighted_multiset_diff([(ep.prob, (float(ep.result),)) for ep in epaths],
                                                   [(a_, (b_,)) for a_, b_ in zip(prob, prim)], (TOL_P,))
                        if d is not None:
                            bad = dict(disagreement=d, estimates=[dict(prob=ep.prob, value=float(ep.result)) for ep in epaths][:12])
                    if bad is not None:
                        ctx.fail("Expectation", "estimate", "any_program", "estimate!=program_value", dict(detail, **bad))
                    else:
                        ctx.note("check_S_estimate")

    return run


def _programs(tier):
    S = _specs()
    names = list(S)
    out = []
    if tier == "thorough":
        for tname, t in SINGLE.items():
            out += [(tname, t, (n,)) for n in names]
        for tname, t in PAIR.items():
            out += [(tname, t, (a, b)) for a in names for b in names]
        return out
    for tname in Q_SINGLE_ALL:
        out += [(tname, SINGLE[tname], (n,)) for n in names]
    for tname, few in Q_SINGLE_FEW.items():
        out += [(tname, SINGLE[tname], (n,)) for n in few]
    seq = list(dict.fromkeys([(r, p) for r in Q_REPS for p in Q_PARTNERS] + [(p, r) for r in Q_REPS for p in Q_PARTNERS]))
    out += [("seq", t_seq, ab) for ab in seq]
    rr = [(a, b) for a in Q_REPS for b in Q_REPS]
    out += [("dep", t_dep, ab) for ab in rr + [("flip_reinforce", "normal_reinforce"), ("reinforce(categorical)", "mv_normal_diag_reparam")]]
    out += [("condprim", t_condprim, ab) for ab in rr + [("flip_enum", "normal_reinforce"), ("baseline(flip_reinforce)", "reinforce(categorical)")]]
    # one pair with a primitive that raises on its own (exercises the skip path; reported by the single cases)
    out.append(("seq", t_seq, ("flip_enum", "flip_mvd")))
    return out


def cases(tier, seed):
    progs = _programs(tier)
    if os.environ.get("VERIF_SUBSET"):
        progs = progs[:: int(os.environ["VERIF_SUBSET"])]
    only = os.environ.get("VERIF_ONLY")
    for tname, t, names in progs:
        if only and not any(o in f"{tname}:{'|'.join(names)}" for o in only.split(",")):
            continue
        yield Case(f"{tname}:{'|'.join(names)}", _run(tname, t, names, tier, seed), dict(template=tname, primitives=list(names)))
