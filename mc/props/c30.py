"""C30 - VI objective gradient estimators are unbiased for their objectives.

Enumerated: objective {ELBO, IWELBO(N=2), PWake, QWake} x model/guide pair x parameter alphabet
(a, b): `a` parameterises the model, `b` the guide (both are target arguments, so the estimate is a
pair of partial derivatives).  The complete probability tree of the jitted gradient estimator is
explored through the randomness seam.

Oracles
 * enumerable discrete pairs (latent flip / 3-way categorical; guides built from vi.flip_enum,
   vi.flip_mvd, adev_distribution(flip_reinforce), vi.categorical_enum, plain genjax.flip):
        sum_paths P(path) * estimate(path)  ==  grad_(a,b) L(a, b)
   with the loss L written in float64 by summing over the support
        ELBO   L = -sum_x q(x) [log p(x,obs) - log q(x)]
        IWELBO L = -sum_{x1,x2} q(x1) q(x2) log( 1/2 sum_i p(x_i,obs)/q(x_i) )
        PWake  L = -sum_x r(x) log p(x,obs)             (r = posterior approximation)
        QWake  L = -sum_x r(x) log q(x)
   differentiated by central differences (and analytically for the Bernoulli ELBO, as a self check).
 * Gaussian guides (vi.normal_reparam, vi.mv_normal_diag_reparam, plain genjax.normal whose TFP
   sampler is itself loc + scale * eps): for every epsilon of the seam's alphabet the estimate equals
   the pathwise derivative  -grad [log p(x(b,eps),obs) - log q(x(b,eps); b)]  (this contains the
   entropy term the repository test cannot see).  vi.normal_reinforce: the score-function formula at
   the pinned sample.
 * when an estimate disagrees, the same closed form *without* the -log q term is evaluated as well;
   agreement with it is reported as its own symptom (diagnosis by exact computation, not a heuristic).
"""

from __future__ import annotations

import itertools
import math
import os

import numpy as np
import jax
import jax.numpy as jnp

import genjax
from genjax import ChoiceMapBuilder as C
from genjax.inference import vi
import genjax.adev as A

from ..common import Case
from .. import adevseam, seam
from ..adevseam import tclose, weighted_multiset_diff, table_key
from ..harness import base_key

PROPERTY = "C30"
LEVEL = "exploration"
RULE = (
    "cases = (objective, model/guide pair); each case = complete probability tree of the jitted gradient estimator "
    "per parameter point (a,b) (every outcome of every discrete site incl. both IWELBO particles, every alphabet "
    "element of every continuous site); distinct = (objective, pair, (a,b), decision table); non-trivial = an estimate "
    "was produced and compared with the float64 closed form"
)
ASSUMPTIONS = [
    "TFP single-site samplers are correct for the parameters they receive; distinct keys independent, identical keys comonotone",
    "Gaussian guides: the expectation over epsilon is not enumerable; the per-epsilon pathwise identity (resp. the "
    "score-function formula at the pinned sample for vi.normal_reinforce) on the seam's alphabet is checked instead",
    "closed-form gradients are central differences (h=1e-5) of float64 sums over the support, compared at 1e-3",
    "jax.pure_callback gets a zero-tangent JVP rule in the harness process (mc/adevseam.py) so that plain sampling sites "
    "inside ADEV-interpreted losses can run under the seam",
]
BOUNDS = {
    "quick": dict(points=[(0.3, 0.6), (0.6, 0.35)], n_cont=3, iwelbo_particles=2),
    "thorough": dict(points=[(0.3, 0.6), (0.6, 0.35), (0.45, 0.45), (0.8, 0.2)], n_cont=3, iwelbo_particles=2),
}
JOBS = {"quick": 8, "thorough": 16}

H = 1e-5
TOL = 1e-3
OBS_Y = 0.5


def _lognorm(x, mu, sd):
    return -0.5 * ((x - mu) / sd) ** 2 - math.log(sd) - 0.5 * math.log(2 * math.pi)


# --------------------------------------------------------------------------------------------
# models (library + reference log joint with the fixed observation)


@genjax.gen
def model_flip(a, b):
    x = genjax.flip(0.2 + 0.5 * a) @ "x"
    _ = genjax.normal(jnp.where(x, 1.0, -1.0), 1.0) @ "y"


def lp_flip(x, a):
    p = 0.2 + 0.5 * a
    return math.log(p if x else 1.0 - p) + _lognorm(OBS_Y, 1.0 if x else -1.0, 1.0)


def _cat_model_probs(a):
    return [0.2 + 0.3 * a, 0.5 - 0.3 * a, 0.3]


LIK = (0.9, 0.2, 0.5)


@genjax.gen
def model_cat(a, b):
    pr = jnp.array([0.2 + 0.3 * a, 0.5 - 0.3 * a, 0.3])
    x = genjax.categorical(jnp.log(pr)) @ "x"
    py = jnp.where(x == 0, LIK[0], jnp.where(x == 1, LIK[1], LIK[2]))
    _ = genjax.flip(py) @ "y"


def lp_cat(x, a):
    return math.log(_cat_model_probs(a)[x]) + math.log(LIK[x])


@genjax.gen
def model_normal(a, b):
    x = genjax.normal(a, 2.0) @ "x"
    _ = genjax.normal(x, 0.5) @ "y"


def lp_normal(x, a):
    return _lognorm(x, a, 2.0) + _lognorm(OBS_Y, x, 0.5)


@genjax.gen
def model_mv(a, b):
    x = genjax.mv_normal_diag(jnp.array([a, 0.0]), jnp.array([2.0, 1.0])) @ "x"
    _ = genjax.normal(x[0] + 0.5 * x[1], 0.5) @ "y"


def lp_mv(x, a):
    return _lognorm(x[0], a, 2.0) + _lognorm(x[1], 0.0, 1.0) + _lognorm(OBS_Y, x[0] + 0.5 * x[1], 0.5)


# --------------------------------------------------------------------------------------------
# guides


def _guide(dist, params_of):
    @genjax.marginal()
    @genjax.gen
    def guide(target):
        (a, b) = target.args
        _ = dist(*params_of(a, b)) @ "x"

    return guide


flip_reinforce_dist = vi.adev_distribution(
    A.flip_reinforce, lambda v, p: genjax.flip.assess(C.v(v), (p,))[0], "flip_reinforce"
)


class DiscreteGuide:
    """support + float64 log q(x; b); `dep` False: the guide ignores the parameters"""

    def __init__(self, name, dist, kind, dep=True):
        self.name, self.kind, self.dep = name, kind, dep
        if kind == "flip":
            self.support = [True, False]
            par = (lambda a, b: (0.1 + 0.8 * b,)) if dep else (lambda a, b: (0.35,))
        else:
            self.support = [0, 1, 2]
            if dist is genjax.categorical:
                par = (lambda a, b: (jnp.log(jnp.array([0.5 * b, 0.7 - 0.5 * b, 0.3])),)) if dep else (lambda a, b: (jnp.log(jnp.array([0.2, 0.5, 0.3])),))
            else:
                par = (lambda a, b: (jnp.array([0.5 * b, 0.7 - 0.5 * b, 0.3]),)) if dep else (lambda a, b: (jnp.array([0.2, 0.5, 0.3]),))
        self.guide = _guide(dist, par)

    def q(self, x, b):
        if self.kind == "flip":
            p = 0.1 + 0.8 * b if self.dep else 0.35
            return p if x else 1.0 - p
        pr = [0.5 * b, 0.7 - 0.5 * b, 0.3] if self.dep else [0.2, 0.5, 0.3]
        return pr[x]


class NormalGuide:
    """x = mu(b) + sd(b) * eps"""

    def __init__(self, name, dist, mode):
        self.name, self.mode = name, mode  # mode: pathwise | formula
        self.guide = _guide(dist, lambda a, b: (2.0 * b - 0.5, 0.5 + b * b))
        self.dims = 1

    def x(self, b, eps):
        return (2.0 * b - 0.5) + (0.5 + b * b) * eps[0]

    def lq(self, x, b):
        return _lognorm(x, 2.0 * b - 0.5, 0.5 + b * b)


class MvGuide:
    def __init__(self, name, dist):
        self.name, self.mode = name, "pathwise"
        self.guide = _guide(dist, lambda a, b: (jnp.array([b, 1.0 - b]), jnp.array([0.5 + b, 1.0 + 0.0 * b])))
        self.dims = 2

    def x(self, b, eps):
        return np.array([b + (0.5 + b) * eps[0], (1.0 - b) + 1.0 * eps[1]])

    def lq(self, x, b):
        return _lognorm(x[0], b, 0.5 + b) + _lognorm(x[1], 1.0 - b, 1.0)


def _discrete_guides():
    return dict(
        flip_enum=DiscreteGuide("flip_enum", vi.flip_enum, "flip"),
        flip_mvd=DiscreteGuide("flip_mvd", vi.flip_mvd, "flip"),
        flip_reinforce=DiscreteGuide("flip_reinforce", flip_reinforce_dist, "flip"),
        categorical_enum=DiscreteGuide("categorical_enum", vi.categorical_enum, "cat"),
        plain_flip_fixed=DiscreteGuide("plain_flip_fixed", genjax.flip, "flip", dep=False),
        plain_categorical_fixed=DiscreteGuide("plain_categorical_fixed", genjax.categorical, "cat", dep=False),
    )


def _normal_guides():
    return dict(
        normal_reparam=NormalGuide("normal_reparam", vi.normal_reparam, "pathwise"),
        normal_reinforce=NormalGuide("normal_reinforce", vi.normal_reinforce, "formula"),
        plain_normal=NormalGuide("plain_normal", genjax.normal, "pathwise"),
        mv_normal_diag_reparam=MvGuide("mv_normal_diag_reparam", vi.mv_normal_diag_reparam),
    )


# --------------------------------------------------------------------------------------------
# closed-form losses (float64).  wq = 1: the stated objective; wq = 0: the same without the -log q term


def _lse2(u, v):
    m = max(u, v)
    return m + math.log(math.exp(u - m) + math.exp(v - m))


def loss_discrete(obj, lp, g, r, a, b, wq=1.0):
    """g: guide/proposal (DiscreteGuide), r: posterior approximation for the wake objectives"""
    if obj == "ELBO":
        return -sum(g.q(x, b) * (lp(x, a) - wq * math.log(g.q(x, b))) for x in g.support)
    if obj == "IWELBO":
        tot = 0.0
        for x1, x2 in itertools.product(g.support, repeat=2):
            w1 = lp(x1, a) - wq * math.log(g.q(x1, b))
            w2 = lp(x2, a) - wq * math.log(g.q(x2, b))
            tot += g.q(x1, b) * g.q(x2, b) * (_lse2(w1, w2) - math.log(2.0))
        return -tot
    if obj == "PWake":
        return -sum(r.q(x, b) * lp(x, a) for x in r.support)
    if obj == "QWake":
        return -sum(r.q(x, b) * math.log(g.q(x, b)) for x in r.support)
    raise ValueError(obj)


def cd2(f, a, b):
    return np.array([(f(a + H, b) - f(a - H, b)) / (2 * H), (f(a, b + H) - f(a, b - H)) / (2 * H)])


def elbo_flip_analytic(lp, g, a, b):
    """d/db of -sum_x q_b(x)[lp(x) - log q_b(x)] for a Bernoulli q with p = 0.1 + 0.8 b (self check of cd2)"""
    p = g.q(True, b)
    dp = 0.8
    return -(dp * (lp(True, a) - lp(False, a)) - dp * (math.log(p) - math.log(1.0 - p)))


def pathwise_reference(obj, lp, g, a, b, eps_tuple, wq=1.0):
    """per-epsilon loss as a function of (a,b) with epsilon fixed (pathwise) or the sample pinned (formula)"""
    if obj == "ELBO":
        eps = eps_tuple[0]
        if g.mode == "pathwise":
            return cd2(lambda a_, b_: -(lp(g.x(b_, eps), a_) - wq * g.lq(g.x(b_, eps), b_)), a, b)
        x0 = g.x(b, eps)
        f = lambda a_, b_: lp(x0, a_) - wq * g.lq(x0, b_)
        return -(cd2(f, a, b) + f(a, b) * cd2(lambda a_, b_: g.lq(x0, b_), a, b))
    if obj == "IWELBO":
        e1, e2 = eps_tuple

        def L(a_, b_):
            x1, x2 = g.x(b_, e1), g.x(b_, e2)
            return -(_lse2(lp(x1, a_) - wq * g.lq(x1, b_), lp(x2, a_) - wq * g.lq(x2, b_)) - math.log(2.0))

        return cd2(L, a, b)
    if obj == "PWake":
        eps = eps_tuple[0]
        return cd2(lambda a_, b_: -lp(g.x(b_, eps), a_), a, b)
    raise ValueError(obj)


# --------------------------------------------------------------------------------------------
# configurations


def _configs(tier):
    D, N = _discrete_guides(), _normal_guides()
    flip_t = (model_flip, lp_flip)
    cat_t = (model_cat, lp_cat)
    out = []
    # (objective, model tuple, guide, posterior approximation or None, kind)
    for gname in ("flip_enum", "flip_mvd", "flip_reinforce", "plain_flip_fixed"):
        for obj in ("ELBO", "IWELBO"):
            out.append((obj, "flip", flip_t, D[gname], None, "discrete"))
    for gname in ("categorical_enum", "plain_categorical_fixed"):
        for obj in ("ELBO", "IWELBO"):
            out.append((obj, "cat", cat_t, D[gname], None, "discrete"))
    for rname in ("plain_flip_fixed", "flip_enum", "flip_reinforce"):
        out.append(("PWake", "flip", flip_t, None, D[rname], "discrete"))
    out.append(("PWake", "cat", cat_t, None, D["plain_categorical_fixed"], "discrete"))
    for gname, rname in (("flip_enum", "plain_flip_fixed"), ("flip_reinforce", "plain_flip_fixed"), ("plain_flip_fixed", "flip_enum")):
        out.append(("QWake", "flip", flip_t, D[gname], D[rname], "discrete"))
    if tier == "thorough":
        out.append(("PWake", "cat", cat_t, None, D["categorical_enum"], "discrete"))
        out.append(("PWake", "flip", flip_t, None, D["flip_mvd"], "discrete"))
        out.append(("QWake", "cat", cat_t, D["categorical_enum"], D["plain_categorical_fixed"], "discrete"))
        out.append(("QWake", "flip", flip_t, D["flip_mvd"], D["plain_flip_fixed"], "discrete"))
        out.append(("QWake", "flip", flip_t, D["flip_enum"], D["flip_reinforce"], "discrete"))
    nt = (model_normal, lp_normal)
    for gname in ("normal_reparam", "normal_reinforce", "plain_normal"):
        out.append(("ELBO", "normal", nt, N[gname], None, "continuous"))
    out.append(("ELBO", "mv", (model_mv, lp_mv), N["mv_normal_diag_reparam"], None, "continuous"))
    out.append(("IWELBO", "normal", nt, N["normal_reparam"], None, "continuous"))
    out.append(("IWELBO", "normal", nt, N["plain_normal"], None, "continuous"))
    out.append(("PWake", "normal", nt, None, N["normal_reparam"], "continuous"))
    return out


def _make_target_fn(model):
    obs = C["y"].set(True) if model is model_cat else C["y"].set(OBS_Y)
    return lambda a, b: genjax.Target(model, (a, b), obs)


def _exc(e):
    return f"exception:{type(e).__name__}"


def _run(obj, mname, mt, g, r, kind, tier, seed):
    model, lp = mt

    def run(ctx):
        adevseam.install()
        points = BOUNDS[tier]["points"]
        n_cont = BOUNDS[tier]["n_cont"]
        key = base_key(seed)
        mk = _make_target_fn(model)
        if obj == "ELBO":
            est = vi.ELBO(g.guide, mk)
        elif obj == "IWELBO":
            est = vi.IWELBO(g.guide, mk, 2)
        elif obj == "PWake":
            est = vi.PWake(r.guide, mk)
        else:
            est = vi.QWake(g.guide, r.guide, mk)
        who = (g or r).name if obj != "QWake" else f"{g.name}/{r.name}"
        icls = f"guide:{who}"
        desc = dict(objective=obj, model=mname, guide=None if g is None else g.name, posterior_approx=None if r is None else r.name)
        with seam.seam(n_cont=n_cont):
            J = jax.jit(est)
        for (a, b) in points:
            ident = (obj, mname, who, a, b)
            try:
                paths, total = adevseam.explore(lambda: J(key, (jnp.float32(a), jnp.float32(b))), n_cont=n_cont)
            except seam.TreeCapped as e:
                ctx.cap(str(e))
                continue
            except Exception as e:
                ctx.ev((ident, "exception"), nontrivial=False)
                ctx.note("estimator_raised")
                ctx.fail(obj, "grad_estimate", icls, _exc(e), dict(config=desc, point=(a, b), error=str(e)[:300]))
                break
            ctx.note("trees")
            ctx.note("paths", len(paths))
            grads = [np.array([float(p.result[0]), float(p.result[1])]) for p in paths]
            probs = [p.prob for p in paths]
            for p in paths:
                ctx.ev((ident, table_key(p)))
            detail = dict(config=desc, point=(a, b), paths=[dict(prob=w, grad=gr.tolist()) for w, gr in zip(probs, grads)][:10])
            if abs(total - 1.0) > 1e-6:
                ctx.fail(obj, "grad_estimate", icls, "sum_prob", dict(detail, total=total))
                continue
            if kind == "discrete":
                lib = sum(w * gr for w, gr in zip(probs, grads))
                want = cd2(lambda a_, b_: loss_discrete(obj, lp, g, r, a_, b_), a, b)
                if obj == "ELBO" and g.kind == "flip" and g.dep:
                    ana = elbo_flip_analytic(lp, g, a, b)
                    assert abs(ana - want[1]) < 1e-6, ("reference self-check", ana, want)
                if tclose(lib, want, TOL):
                    ctx.note("check_expectation")
                else:
                    alt = cd2(lambda a_, b_: loss_discrete(obj, lp, g, r, a_, b_, wq=0.0), a, b)
                    sym = "expectation==gradient_without_log_q" if (obj in ("ELBO", "IWELBO") and tclose(lib, alt, TOL)) else "expectation!=objective_gradient"
                    ctx.fail(obj, "grad_estimate", icls, sym, dict(detail, library=lib.tolist(), expected=want.tolist(), without_log_q=alt.tolist()))
                if (a, b) == points[0]:
                    ctx.sample(dict(config=desc, point=(a, b), n_paths=len(paths), tree_expectation=lib.tolist(), closed_form_gradient=want.tolist()))
            else:
                gg = g or r
                n_eps = (2 if obj == "IWELBO" else 1)
                combos = list(itertools.product(itertools.product(seam.Z_ALPHABET[:n_cont], repeat=gg.dims), repeat=n_eps))
                w = 1.0 / len(combos)

                def ref_items(wq):
                    items = []
                    for eps_tuple in combos:
                        gr = pathwise_reference(obj, lp, gg, a, b, eps_tuple, wq)
                        items.append((w, (gr[0], gr[1])))
                    return items

                libitems = [(pw, (gr[0], gr[1])) for pw, gr in zip(probs, grads)]
                d = weighted_multiset_diff(libitems, ref_items(1.0), (TOL, TOL))
                if d is None:
                    ctx.note("check_pathwise")
                else:
                    d0 = weighted_multiset_diff(libitems, ref_items(0.0), (TOL, TOL)) if obj in ("ELBO", "IWELBO") else True
                    sym = "pathwise==gradient_without_log_q" if d0 is None else "pathwise!=objective_gradient"
                    ctx.fail(obj, "grad_estimate", icls, sym, dict(detail, disagreement=d,
                             reference=[dict(w=x[0], grad=list(x[1])) for x in ref_items(1.0)][:10]))
                if (a, b) == points[0]:
                    ctx.sample(dict(config=desc, point=(a, b), n_paths=len(paths), first_path=dict(prob=probs[0], grad=grads[0].tolist()),
                                    reference_first=list(ref_items(1.0)[0][1])))

    return run


def cases(tier, seed):
    cfgs = _configs(tier)
    only = os.environ.get("VERIF_ONLY")
    for obj, mname, mt, g, r, kind in cfgs:
        cid = f"{obj}:{mname}:{'-' if g is None else g.name}:{'-' if r is None else r.name}"
        if only and only not in cid:
            continue
        yield Case(cid, _run(obj, mname, mt, g, r, kind, tier, seed),
                   dict(objective=obj, model=mname, guide=None if g is None else g.name, posterior_approx=None if r is None else r.name))
