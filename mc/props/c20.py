"""C20 - Staging helpers select, branch and combine flags correctly.

Enumerated (bounded-exhaustive):

* FlagOp.and_/or_/xor_ over ALL ordered operand pairs from {True, False, jnp.array(True), jnp.array(False),
  every bool vector of length 2 and 3} (same-length vectors or scalar x vector), eager, and the same pairs
  with array operands traced under jax.jit (python bools stay static); not_ over every single operand;
  where over every flag x same-shaped case arrays (float and int); cond over every scalar flag.
  Oracle: Boolean logic element-wise (numpy); python-bool operands give python bools (the overloads).
* tree_choose: idx in [-4, 6] as python int, 0-d jnp array (eager), traced (jit) and one 11-vector of all
  indices x every list of length 1..3 over dtypes {bool, int32, float32}^n, as python scalars, 0-d arrays,
  (2,)-arrays and nested pytrees.  Oracle: vs[idx mod n] cast to the promoted dtype (bool < int32 < float32).
* multi_switch: same idx range and forms x every branch list of length 1..3 over a pool of output shapes
  (float scalar / (float(2,), int scalar) tuple / int (2,2) matrix / dict(bool scalar, float (2,))), each branch
  with its own argument tuple.  Oracle: entry clamp(idx, 0, n-1) = branch(*args), all others zeros of the
  branch's shape and dtype.
"""

from __future__ import annotations

import itertools

import numpy as np

from ..common import Case

PROPERTY = "C20"
LEVEL = "exploration"
RULE = (
    "FlagOp: every ordered operand pair of the flag alphabet x {and,or,xor}, every operand x {not,where,cond}, eager and "
    "jit; tree_choose: every (index, index form, value list) with lists = all dtype tuples of length 1..3 in 4 value "
    "forms; multi_switch: every (index, index form, branch list); one evaluation = one helper call compared with the "
    "oracle; non-trivial = not both operands python bools / index out of [0,n) or list length > 1"
)
ASSUMPTIONS = [
    "FlagOp operands are python bools or jax bool arrays (numpy bools are rejected by the type hints)",
    "FlagOp.where is called with cases of identical dtype and, for vector flags, identical shape (lax.select contract); "
    "FlagOp.cond only with scalar flags (lax.cond contract)",
    "dtype promotion lattice with x64 disabled: bool < int32 < float32",
    "numeric alphabets are a handful of distinct small numbers",
]
IDX = list(range(-4, 7))
BOUNDS = {
    "quick": dict(flag_alphabet="4 scalars + 4 vectors(len 2) + 8 vectors(len 3)", flagop_pairs=192, idx=[-4, 6],
                  idx_forms=["int", "array", "traced", "vector"], tree_choose_lists=39, value_forms=4,
                  multi_switch_pool=3, multi_switch_lists=39, multi_switch_eager_array_idx="-4,-1,0,n-1,n,6"),
    "thorough": dict(flag_alphabet="4 scalars + 4 vectors(len 2) + 8 vectors(len 3)", flagop_pairs=192, idx=[-4, 6],
                     idx_forms=["int", "array", "traced", "vector"], tree_choose_lists=39, value_forms=4,
                     multi_switch_pool=4, multi_switch_lists=84, multi_switch_eager_array_idx="all"),
}
JOBS = {"quick": 6, "thorough": 12}


# ---------------------------------------------------------------------------------------------
# FlagOp

SCALARS = ["T", "F", "aT", "aF"]


def _vec_names():
    return ["v" + "".join("T" if b else "F" for b in v) for n in (2, 3) for v in itertools.product([True, False], repeat=n)]


def flag_ref(name: str):
    """numpy value of a flag name."""
    if name in ("T", "aT"):
        return np.array(True)
    if name in ("F", "aF"):
        return np.array(False)
    return np.array([c == "T" for c in name[1:]])


def flag_lib(name: str):
    import jax.numpy as jnp

    if name == "T":
        return True
    if name == "F":
        return False
    return jnp.asarray(flag_ref(name))


def flag_pairs():
    names = SCALARS + _vec_names()
    for a in names:
        for b in names:
            sa, sb = flag_ref(a).shape, flag_ref(b).shape
            if sa == sb or sa == () or sb == ():
                yield a, b


def _is_py(name):
    return name in ("T", "F")


def flagop_all(f, g, cases, errs):
    """every FlagOp helper on (f, g); cases = (tf, ff, ti, fi) shaped like f."""
    from genjax._src.core.compiler.staging import FlagOp

    out = {}

    def run(name, thunk):
        try:
            out[name] = thunk()
            # observed where it is produced: jit would turn a returned python bool into an array
            errs[("is_python_bool", name)] = isinstance(out[name], bool)
        except Exception as e:
            errs[name] = e

    run("and_", lambda: FlagOp.and_(f, g))
    run("or_", lambda: FlagOp.or_(f, g))
    run("xor_", lambda: FlagOp.xor_(f, g))
    run("not_", lambda: FlagOp.not_(f))
    tf, ff, ti, fi = cases
    run("where_float", lambda: FlagOp.where(f, tf, ff))
    run("where_int", lambda: FlagOp.where(f, ti, fi))
    if np.shape(f) == ():
        run("cond", lambda: FlagOp.cond(f, lambda x, y: (x + y, {"p": x}), lambda x, y: (x * y, {"p": y}), tf, ff))
    return out


def _cases_for(shape):
    n = int(np.prod(shape)) if shape else 1
    tf = (np.arange(n, dtype=np.float32) + 1.5).reshape(shape)
    ff = (np.arange(n, dtype=np.float32) + 21.5).reshape(shape)
    ti = (np.arange(n, dtype=np.int32) + 3).reshape(shape)
    fi = (np.arange(n, dtype=np.int32) + 40).reshape(shape)
    return tf, ff, ti, fi


def flagop_ref(a: str, b: str):
    fa, fb = flag_ref(a), flag_ref(b)
    tf, ff, ti, fi = _cases_for(fa.shape)
    r = {
        "and_": np.logical_and(fa, fb), "or_": np.logical_or(fa, fb), "xor_": np.logical_xor(fa, fb),
        "not_": np.logical_not(fa), "where_float": np.where(fa, tf, ff), "where_int": np.where(fa, ti, fi),
    }
    if fa.shape == ():
        r["cond"] = (tf + ff, {"p": tf}) if bool(fa) else (tf * ff, {"p": ff})
    return r


def _cmp_tree(got, exp):
    import jax.tree_util as jtu

    gl, gt = jtu.tree_flatten(got)
    el, et = jtu.tree_flatten(exp)
    if len(gl) != len(el) or gt.num_nodes != et.num_nodes:
        return "structure"
    for g, e in zip(gl, el):
        g, e = np.asarray(g), np.asarray(e)
        if g.shape != e.shape:
            return "shape"
        if g.dtype.kind != e.dtype.kind:
            return "dtype"
        if not np.array_equal(g, e):
            return "value"
    return None


def _check_flagop(ctx, mode, a, b, out, errs):
    exp = flagop_ref(a, b)
    both_py = _is_py(a) and _is_py(b)
    for name, e in exp.items():
        unary = name in ("not_", "where_float", "where_int", "cond")
        key = (mode, name, a) if unary else (mode, name, a, b)
        ctx.ev(key, nontrivial=not (_is_py(a) if unary else both_py))
        detail = dict(op=name, f=a, g=None if unary else b, mode=mode)
        comp = "FlagOp." + {"where_float": "where", "where_int": "where"}.get(name, name)
        if name in errs:
            ctx.fail(comp, name, mode, f"exception:{type(errs[name]).__name__}", dict(detail, message=str(errs[name])[:300]))
            continue
        got = out[name]
        w = _cmp_tree(got, e)
        if w:
            ctx.fail(comp, name, mode, w, dict(detail, expected=e, actual=got))
            continue
        # python-bool operands stay python bools (FlagOp's overloads; the concrete short-cut the class exists for)
        want_py = (name in ("and_", "or_", "xor_") and both_py) or (name == "not_" and _is_py(a))
        if want_py and not errs.get(("is_python_bool", name)):
            ctx.fail(comp, name, mode, "not_concrete", dict(detail, actual=repr(got)))


def _case_flagop_eager():
    def run(ctx):
        import jax.numpy as jnp

        for a, b in flag_pairs():
            errs = {}
            cases = tuple(jnp.asarray(c) for c in _cases_for(flag_ref(a).shape))
            out = flagop_all(flag_lib(a), flag_lib(b), cases, errs)
            _check_flagop(ctx, "eager", a, b, out, errs)
        ctx.sample(dict(helper="FlagOp", f="aT", g="vTF", note="0-d array x vector broadcast"))
    return run


def _case_flagop_jit():
    def run(ctx):
        import jax
        import jax.numpy as jnp

        fns = {}
        for a, b in flag_pairs():
            # python bools static, arrays traced; one compiled function per (static values, traced shapes)
            pa = a if _is_py(a) else flag_ref(a).shape
            pb = b if _is_py(b) else flag_ref(b).shape
            k = (pa, pb)
            if k not in fns:
                errs = {}

                def fn(tr, cases, a_py=(flag_lib(a) if _is_py(a) else None), b_py=(flag_lib(b) if _is_py(b) else None), errs=errs):
                    it = iter(tr)
                    f = a_py if a_py is not None else next(it)
                    g = b_py if b_py is not None else next(it)
                    return flagop_all(f, g, cases, errs)

                fns[k] = (jax.jit(fn), errs)
                ctx.note("jit_compiles")
            jfn, errs = fns[k]
            tr = tuple(flag_lib(x) for x in (a, b) if not _is_py(x))
            cases = tuple(jnp.asarray(c) for c in _cases_for(flag_ref(a).shape))
            out = jfn(tr, cases)
            _check_flagop(ctx, "jit", a, b, out, errs)
        ctx.sample(dict(helper="FlagOp", mode="jit", f="T (static)", g="vFT (traced)"))
    return run


# ---------------------------------------------------------------------------------------------
# tree_choose

DT = {"b": np.bool_, "i": np.int32, "f": np.float32}
RANK = {"b": 0, "i": 1, "f": 2}
BY_RANK = {0: np.bool_, 1: np.int32, 2: np.float32}


def _val(dt: str, j: int, form: str):
    """j-th list entry of dtype dt in the given form (numpy reference value, library value)."""
    if dt == "b":
        base = (j % 2 == 0)
    elif dt == "i":
        base = 3 + 4 * j
    else:
        base = 1.5 + 2.0 * j
    if form == "py":
        lib = bool(base) if dt == "b" else (int(base) if dt == "i" else float(base))
        return np.asarray(base, DT[dt]), lib
    if form == "arr0":
        r = np.asarray(base, DT[dt])
        return r, r
    r = np.asarray([base, (not base) if dt == "b" else base + 1], DT[dt])
    return r, r


def choose_lists():
    for n in (1, 2, 3):
        for dts in itertools.product("bif", repeat=n):
            yield dts


def _tree_lists(dts, form):
    """nested pytrees: leaf 'a' uses dts, leaf b[0] the rotated tuple, b[1] the reversed tuple."""
    n = len(dts)
    rot = dts[1:] + dts[:1]
    rev = dts[::-1]
    ref, lib = [], []
    for j in range(n):
        ra, la = _val(dts[j], j, form)
        rb, lb = _val(rot[j], j + 1, form)
        rc, lc = _val(rev[j], j + 2, form)
        ref.append({"a": ra, "b": (rb, rc)})
        lib.append({"a": la, "b": (lb, lc)})
    dtypes = {"a": dts, "b": (rot, rev)}
    return ref, lib, dtypes


def _promote(dts):
    return BY_RANK[max(RANK[d] for d in dts)]


def _lib_values(form, dts):
    import jax.numpy as jnp

    if form == "tree":
        ref, lib, dtypes = _tree_lists(dts, "arr0")
        import jax.tree_util as jtu

        return ref, [jtu.tree_map(jnp.asarray, t) for t in lib], dtypes
    ref, lib = zip(*[_val(d, j, form) for j, d in enumerate(dts)])
    if form != "py":
        lib = [jnp.asarray(x) for x in lib]
    return list(ref), list(lib), dts


def _expected_choice(ref, dtypes, form, i):
    """oracle: vs[i mod n] with every leaf cast to the promoted dtype of its position."""
    n = len(ref)
    sel = ref[i % n]
    if form == "tree":
        return {"a": sel["a"].astype(_promote(dtypes["a"])),
                "b": (sel["b"][0].astype(_promote(dtypes["b"][0])), sel["b"][1].astype(_promote(dtypes["b"][1])))}
    return sel.astype(_promote(dtypes))


def _cmp_exact_dtype(got, exp):
    import jax.tree_util as jtu

    gl, gt = jtu.tree_flatten(got)
    el, et = jtu.tree_flatten(exp)
    if len(gl) != len(el) or gt.num_nodes != et.num_nodes:
        return "structure"
    for g, e in zip(gl, el):
        g, e = np.asarray(g), np.asarray(e)
        if g.shape != e.shape:
            return "shape"
        if g.dtype != e.dtype:
            return "dtype"
        if not np.array_equal(g, e):
            return "value"
    return None


def _case_tree_choose(form):
    def run(ctx):
        import jax
        import jax.numpy as jnp
        from genjax._src.core.compiler.staging import tree_choose

        lists = [(dts,) + tuple(_lib_values(form, dts)) for dts in choose_lists()]

        def check(idx_form, i, dts, ref, dtypes, got, err, elem=None):
            n = len(dts)
            ctx.ev(("tree_choose", form, idx_form, i, "".join(dts)), nontrivial=(n > 1 or not 0 <= i < n))
            detail = dict(values_form=form, idx_form=idx_form, idx=i, dtypes="".join(dts), n=n)
            if err is not None:
                ctx.fail("tree_choose", idx_form, form, f"exception:{type(err).__name__}", dict(detail, message=str(err)[:300]))
                return
            exp = _expected_choice(ref, dtypes, form, i)
            if elem is not None:
                got = jax.tree_util.tree_map(lambda x: np.asarray(x)[elem], got)
            w = _cmp_exact_dtype(got, exp)
            if w:
                ctx.fail("tree_choose", idx_form, form, w, dict(detail, expected=exp, actual=got, expected_index=i % n))

        # python int and concrete 0-d array index, eager
        for dts, ref, lib, dtypes in lists:
            for i in IDX:
                for idx_form, idx in (("int", i), ("array", jnp.array(i))):
                    try:
                        got, err = tree_choose(idx, lib), None
                    except Exception as e:
                        got, err = None, e
                    check(idx_form, i, dts, ref, dtypes, got, err)
        # traced index: one compiled function evaluates every list
        errs = {}

        def fn(idx):
            out = {}
            for k, (dts, ref, lib, dtypes) in enumerate(lists):
                try:
                    out[k] = tree_choose(idx, lib)
                except Exception as e:
                    errs[k] = e
            return out

        jfn = jax.jit(fn)
        ctx.note("jit_compiles")
        for i in IDX:
            out = jfn(jnp.array(i))
            for k, (dts, ref, lib, dtypes) in enumerate(lists):
                check("traced", i, dts, ref, dtypes, out.get(k), errs.get(k))
        # vector index (element-wise choice, the form used by vectorized masks): scalar-leaf forms only
        if form in ("arr0", "tree"):
            vidx = jnp.array(IDX)
            for dts, ref, lib, dtypes in lists:
                vlib = [jax.tree_util.tree_map(lambda x: jnp.broadcast_to(x, (len(IDX),)), t) for t in lib]
                try:
                    got, err = tree_choose(vidx, vlib), None
                except Exception as e:
                    got, err = None, e
                for pos, i in enumerate(IDX):
                    check("vector", i, dts, ref, dtypes, got, err, elem=pos)
        ctx.sample(dict(helper="tree_choose", values_form=form, example=dict(idx=-4, dtypes="bif", expected_index=2, expected_dtype="float32")))
    return run


# ---------------------------------------------------------------------------------------------
# multi_switch


def _branch_pool():
    """(name, library fn, reference fn, args(position)) - outputs of different shapes / dtypes."""
    import jax.numpy as jnp

    return {
        "A": (lambda x: x + 1.0,
              lambda x: np.float32(x + 1.0),
              lambda pos: (np.float32(2.0 + pos),)),
        "B": (lambda x, y: (x * jnp.ones(2), y),
              lambda x, y: (np.float32(x) * np.ones(2, np.float32), np.int32(y)),
              lambda pos: (np.float32(3.0 + pos), np.int32(5 + pos))),
        "C": (lambda: jnp.full((2, 2), 7, jnp.int32),
              lambda: np.full((2, 2), 7, np.int32),
              lambda pos: ()),
        "D": (lambda x: {"k": x > 0, "v": jnp.stack([x, -x])},
              lambda x: {"k": np.bool_(x > 0), "v": np.stack([np.float32(x), np.float32(-x)])},
              lambda pos: (np.float32(4.0 + pos),)),
    }


def _zeros_like(t):
    import jax.tree_util as jtu

    return jtu.tree_map(lambda x: np.zeros(np.shape(x), np.asarray(x).dtype), t)


def _case_multi_switch(names, tier):
    def run(ctx):
        import jax
        import jax.numpy as jnp
        from genjax._src.core.compiler.staging import multi_switch

        pool = _branch_pool()
        n = len(names)
        fns = [pool[k][0] for k in names]
        args_np = [pool[k][2](pos) for pos, k in enumerate(names)]
        args = [tuple(jnp.asarray(a) for a in t) for t in args_np]
        filled = [pool[k][1](*args_np[pos]) for pos, k in enumerate(names)]

        def check(idx_form, i, got, err):
            ctx.ev(("multi_switch", "".join(names), idx_form, i), nontrivial=(n > 1))
            detail = dict(branches="".join(names), idx_form=idx_form, idx=i, n=n)
            if err is not None:
                ctx.fail("multi_switch", idx_form, "heterogeneous" if len(set(names)) > 1 else "homogeneous",
                         f"exception:{type(err).__name__}", dict(detail, message=str(err)[:300]))
                return
            c = min(max(i, 0), n - 1)
            exp = [filled[j] if j == c else _zeros_like(filled[j]) for j in range(n)]
            w = None
            if not isinstance(got, (list, tuple)) or len(got) != n:
                w = "structure"
            else:
                for j in range(n):
                    w = _cmp_tree(got[j], exp[j])
                    if w:
                        w = ("filled_" if j == c else "placeholder_") + w
                        break
            if w:
                ctx.fail("multi_switch", idx_form, "heterogeneous" if len(set(names)) > 1 else "homogeneous", w,
                         dict(detail, expected=exp, actual=got, clamped=c))

        def call(idx):
            try:
                return multi_switch(idx, fns, args), None
            except Exception as e:
                return None, e

        arr_idx = IDX if tier == "thorough" else sorted({-4, -1, 0, n - 1, n, 6})
        for i in IDX:
            check("int", i, *call(i))
        for i in arr_idx:
            check("array", i, *call(jnp.array(i)))
        errs = []

        def fn(idx):
            try:
                return multi_switch(idx, fns, args)
            except Exception as e:
                errs.append(e)
                return None

        jfn = jax.jit(fn)
        ctx.note("jit_compiles")
        for i in IDX:
            got = jfn(jnp.array(i))
            check("traced", i, got, errs[0] if errs else None)
        ctx.sample(dict(helper="multi_switch", branches="".join(names), idx=6, clamped=n - 1,
                        output_shapes=[[list(np.shape(x)) for x in jax.tree_util.tree_leaves(f)] for f in filled]))
    return run


def cases(tier, seed):
    yield Case("flagop:eager", _case_flagop_eager(), dict(helper="FlagOp", mode="eager"))
    yield Case("flagop:jit", _case_flagop_jit(), dict(helper="FlagOp", mode="jit"))
    for form in ("py", "arr0", "arr1", "tree"):
        yield Case(f"tree_choose:{form}", _case_tree_choose(form), dict(helper="tree_choose", values_form=form))
    pool = "ABCD"
    if tier != "thorough":  # quick: 3 of the 4 output shapes (which one is left out rotates with the seed)
        drop = "DCBA"[seed % 4]
        pool = pool.replace(drop, "")
    for n in (1, 2, 3):
        for names in itertools.product(pool, repeat=n):
            yield Case("multi_switch:" + "".join(names), _case_multi_switch(names, tier), dict(helper="multi_switch", branches="".join(names)))
