"""C04 - simulate samples the program's distribution and is a function of the key.

Enumerated: complete probability trees (E1) of `simulate` and `propose` for every finite-discrete
program of the catalog x argument alphabet, plus multi-argument programs reached through a partially
applied closure f(a).simulate(key, (b,)).  Oracles:
 (i)   sum P(path) == 1 (the tree is complete);
 (ii)  for every complete assignment t: sum_{paths -> t} P(path) == P_ref(t);
 (iii) shared keys are comonotone in the explorer, so key reuse between effective sites breaks (ii);
 (iv)  determinism with the seam OFF (real TFP samplers): same (key,args) twice, eager and jit.
Continuous programs: every site receives exactly the parameters the reference computes (argument
fidelity through score/retval agreement on the alphabet), no distributional claim.
"""

from __future__ import annotations

import numpy as np
import jax

from ..common import Case, HarnessError, close
from .. import gfi, grammar, seam
from ..harness import Prog, args_key, base_key, to_jax_args, norm_ret, cmp_ret

PROPERTY = "C04"
LEVEL = "model_checking"
RULE = (
    "cases = catalog programs x argument alphabet; each case = complete probability tree of simulate/propose "
    "(every outcome of every sampling site, sites identified by consumed key); distinct = (program,args,complete "
    "choice assignment); non-trivial = path with >= 1 branch point"
)
ASSUMPTIONS = [
    "TFP single-site samplers are correct for the parameters they receive",
    "distinct threefry keys give independent streams; identical keys give identical (comonotone) draws",
    "continuous sites are explored on a standardized value alphabet only",
]
BOUNDS = {
    "quick": dict(programs="catalog(quick) discrete, depth<=2 pair-covering", args=2, max_paths=2048),
    "thorough": dict(programs="catalog(thorough) incl. continuous", args=3, max_paths=65536),
}
JOBS = {"quick": 8, "thorough": 16}


class _PartialShim:
    """f(a).simulate(key, (b, ...)): the generative function reached through a partially applied closure
    (stored positional arguments + call-time arguments).  Seeded change C04-c04c-sub3 swapped the two
    groups in GenerativeFunctionClosure.simulate; the reference is the underlying program at (a, b, ...)."""

    def __init__(self, gf, k):
        self.gf, self.k = gf, k

    def simulate(self, key, args):
        return self.gf(*args[: self.k]).simulate(key, tuple(args[self.k :]))

    def propose(self, key, args):
        return self.gf(*args[: self.k]).propose(key, tuple(args[self.k :]))


def partial_of(node, k=1):
    import copy

    n = copy.copy(node)
    n.name = f"partial{k}({node.name})"
    inner_gf = node.gf
    n.gf = lambda: _PartialShim(inner_gf(), k)
    return n


def _programs(tier):
    progs = grammar.catalog(tier, continuous=True)
    f = grammar.Flip()
    multi = [grammar.pair2(), grammar.Scan(grammar.kern(f), 2, xs=True), grammar.dimap_std(f), grammar.Vmap(grammar.pair2(), 2, (0, None))]
    progs = progs + [partial_of(n) for n in multi]
    return progs


def _run(node, tier, seed):
    def run(ctx):
        prog = Prog(node, n_cont=2)
        key = base_key(seed)
        alph = grammar.rotate(node.arg_alphabet(), seed)
        n_args = 3 if tier == "thorough" else (2 if node.depth() <= 1 else 1)
        alph = alph[:n_args]
        max_paths = BOUNDS[tier]["max_paths"]
        for ai, args in enumerate(alph):
            for op in ("simulate", "propose") if ai == 0 else ("simulate",):
                try:
                    tree = gfi.SimTree(prog, args, key, max_paths=max_paths, op=op)
                except seam.TreeCapped as e:
                    ctx.cap(f"{op} args#{ai}: {e}")
                    ctx.ev((node.name, args_key(args), op, "capped"), nontrivial=False)
                    continue
                except HarnessError:
                    raise
                except Exception as e:
                    # simulate / propose of a catalog program on alphabet arguments must not raise
                    ctx.ev((node.name, args_key(args), op, "raised"), nontrivial=True)
                    ctx.fail(grammar.component_of(node), op, "tree", f"exception:{type(e).__name__}", dict(program=node.name, args=args_key(args), msg=str(e)[:300]))
                    continue
                ctx.note("trees")
                ctx.note("paths", len(tree.paths))
                ctx.transition(len(tree.paths) + tree.stats["branch_points"])
                if abs(tree.total - 1.0) > 1e-6:
                    ctx.fail(grammar.component_of(node), op, "tree", "sum_prob", dict(program=node.name, total=tree.total))
                else:
                    ctx.note("sum_prob_checks")
                for p in tree.paths:
                    asg = tree.path_asg(p)
                    k = (node.name, args_key(args), op, gfi.asg_key(asg))
                    ctx.ev(k, nontrivial=p.n_branch > 0)
                    ctx.state(k)
                    ctx.outcome(gfi.asg_key(asg))
                    gfi.check_trace_against_ref(
                        ctx, node, args, asg, p.result["score"], norm_ret(p.result["retval"]), "sim_path", op
                    )
                if node.discrete:
                    ni, nr = gfi.distribution_check(ctx, node, args, tree, op)
                    ctx.note("assignments", nr)
                if ai == 0 and op == "simulate":
                    ctx.sample(dict(program=node.name, args=args_key(args), paths=len(tree.paths),
                                    first_assignment=gfi.asg_key(tree.path_asg(tree.paths[0])), prob=tree.paths[0].prob))
        # (iv) determinism with the seam off
        args = alph[0]
        jargs = to_jax_args(args)
        gf = prog.gf

        def sim(key, a):
            tr = gf.simulate(key, a)
            return tr.get_score(), tr.get_retval(), tr.get_choices()

        try:
            r1 = sim(key, jargs)
            r2 = sim(key, jargs)
            r3 = jax.jit(sim)(key, jargs)
        except Exception as e:
            ctx.ev((node.name, "determinism", "raised"), nontrivial=True)
            ctx.fail(grammar.component_of(node), "simulate", "seam_off", f"exception:{type(e).__name__}", dict(program=node.name, msg=str(e)[:300]))
            return
        l1, l2, l3 = (jax.tree_util.tree_leaves(r) for r in (r1, r2, r3))
        same12 = len(l1) == len(l2) and all(np.array_equal(np.asarray(a), np.asarray(b), equal_nan=True) for a, b in zip(l1, l2))
        same13 = len(l1) == len(l3) and all(close(np.asarray(a, dtype=np.float64), np.asarray(b, dtype=np.float64)) for a, b in zip(l1, l3))
        ctx.ev((node.name, "determinism"), nontrivial=False)
        if not same12:
            ctx.fail(grammar.component_of(node), "simulate", "same_key_twice", "nondeterministic", dict(program=node.name))
        if not same13:
            ctx.fail(grammar.component_of(node), "simulate", "eager_vs_jit", "nondeterministic", dict(program=node.name))

    return run


def cases(tier, seed):
    import os
    progs = _programs(tier)
    if os.environ.get("VERIF_SUBSET"):
        progs = progs[:: int(os.environ["VERIF_SUBSET"])]
    for node in progs:
        if tier == "quick" and node.depth() >= 2 and node.kind not in ("vmap", "repeat", "scan", "switch", "mix", "or_else"):
            # quick: doubly nested programs only under the combinators that derive or route keys
            continue
        yield Case(node.name, _run(node, tier, seed), dict(program=node.name, kinds=sorted(node.kinds())))
