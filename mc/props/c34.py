"""C34 - get_subtrace returns the sub-execution at an address.

Enumerated: programs with traced static addresses (plain, tuple, nested static calls) on their own and
under vmap / repeat / scan / switch / mask(True) / dimap and doubly nested vector combinators x every
leaf of the complete simulate tree x EVERY address sequence the program traced.  Oracle: the sub-trace's
choices equal the parent's sub-map at that address (every reference choice below the address is found
at the corresponding position), and its score is that call's contribution to the parent's score: the
sum of the reference log-density terms below the address - elementwise per index tuple for vector
combinators (the stacked sub-trace)."""

from __future__ import annotations

import itertools

import jax
import jax.numpy as jnp
import numpy as np

from ..common import Case, close
from .. import gfi, grammar, seam
from ..grammar import Flip, MaskN, Repeat, Scan, Static, Switch, Vmap, component_of, kern, kern_chain, kern_indep, nested_first, one, ref_run, tupaddr, two, wrap, dimap_std, flipnorm, kwdists
from ..harness import Prog, args_key, base_key, lookup, static_part
from ..bfs import _val_eq

PROPERTY = "C34"
LEVEL = "exploration"
RULE = (
    "programs x leaves of the complete simulate tree x every traced address sequence (static, tuple, nested; under "
    "vmap/repeat/scan/switch/mask/dimap); each = one real get_subtrace call compared with the reference terms below "
    "the address; distinct = (program, args, assignment, address); non-trivial = sub-execution with >= 1 choice"
)
ASSUMPTIONS = [
    "tuple addresses are passed as one address (documented: get_subtrace(('a','b')) != get_subtrace('a','b'))",
    "mask programs are explored with flag True only (for a False flag the sub-execution's own score is not the contribution 0)",
]
BOUNDS = {"quick": dict(states=6), "thorough": dict(states=32)}
JOBS = {"quick": 10, "thorough": 16}


def addr_sequences(node, prefix=()):
    """all address sequences get_subtrace accepts, with the flattened static prefix they correspond to"""
    out = []
    if isinstance(node, Static):
        for s in node.sites:
            at = s.addr if isinstance(s.addr, tuple) else (s.addr,)
            seq = prefix + (s.addr,)
            out.append(seq)
            if isinstance(s.sub, grammar.Node):
                out += addr_sequences(s.sub, seq)
        return out
    for c in node.children()[:1] if node.kind not in ("switch", "or_else", "mix") else []:
        out += addr_sequences(c, prefix)
    if node.kind == "switch":
        for b in node.branches:
            out += [("branch", node.branches.index(b)) + ()] and []
    return out


def flat(seq):
    f = ()
    for a in seq:
        f += a if isinstance(a, tuple) else (a,)
    return f


def programs(tier):
    f = Flip()
    P = [
        one(f), two(f, f), nested_first(f), tupaddr(f), kwdists(), flipnorm(),
        Vmap(two(f, f), 2, 0), Vmap(nested_first(f), 2, 0), Repeat(tupaddr(f), 2),
        Scan(kern(two(f, f)), 2), Scan(kern(nested_first(f)), 2, xs=False),
        dimap_std(two(f, f)),
        Vmap(wrap(Vmap(f, 2, 0)), 2, 0), Scan(kern(wrap(Scan(kern(f), 2))), 2), Vmap(wrap(Scan(kern(f), 2)), 2, 0),
        one(wrap(MaskN(f), 1)), Vmap(wrap(MaskN(two(f, f)), 1), 2, 0),
        Scan(kern_chain(f), 3, xs=True), Scan(kern_indep(two(f, f)), 3, xs=True),
    ]
    if tier == "thorough":
        P += [Vmap(two(f, f), 3, 0), Repeat(nested_first(f), 3), Scan(kern(wrap(Vmap(f, 2, 0))), 3), wrap(dimap_std(two(f, f))), Vmap(wrap(dimap_std(f)), 2, 0)]
    return P


class SwitchSub(Switch):
    pass


def _run(node, tier, seed, switch_idx=None):
    def run(ctx):
        comp = component_of(node)
        prog = Prog(node, n_cont=2)
        key = base_key(seed)
        seqs = addr_sequences(node) if switch_idx is None else addr_sequences(node.branches[switch_idx])
        alph = node.arg_alphabet() if switch_idx is None else [a for a in node.arg_alphabet() if a[0] == switch_idx]
        for args in alph[:1 if tier == "quick" else 2]:
            tree = gfi.SimTree(prog, args, key, max_paths=512)
            for p in tree.paths[: BOUNDS[tier]["states"]]:
                asg = tree.path_asg(p)
                ret, R = ref_run(node, args, asg)
                tr = jax.tree_util.tree_map(jnp.asarray, p.result["trace"])
                for seq in seqs:
                    fp = flat(seq)
                    terms = [t for t in R.terms if static_part(t[0])[: len(fp)] == fp]
                    k = (node.name, args_key(args), gfi.asg_key(asg), repr(seq))
                    ctx.ev(k, nontrivial=len(terms) > 0)
                    det = dict(program=node.name, args=args_key(args), asg=gfi.asg_key(asg), address=repr(seq))
                    try:
                        sub = tr.get_subtrace(*seq)
                        score = np.asarray(sub.get_score(), dtype=np.float64)
                        chm = sub.get_choices()
                    except Exception as e:
                        ctx.fail(comp, "get_subtrace", _cls(seq), f"exception:{type(e).__name__}", dict(det, msg=str(e)[:300]))
                        continue
                    # score: per index tuple
                    by_idx = {}
                    for t in terms:
                        idx = tuple(c for c in _prefix_ints(t[0], fp))
                        by_idx[idx] = by_idx.get(idx, 0.0) + t[1]
                    ok = True
                    if score.ndim == 0:
                        # a stacked static sub-trace reports the total over its indices
                        ok = close(float(score), sum(by_idx.values()))
                    else:
                        if all(len(idx) == score.ndim for idx in by_idx):
                            for idx, v in by_idx.items():
                                if not close(float(score[idx]), v):
                                    ok = False
                        if ok and not close(float(score.sum()), sum(by_idx.values())):
                            ok = False
                    if not ok:
                        ctx.fail(comp, "get_subtrace", _cls(seq), "score", dict(det, impl=score.tolist(), ref={repr(k_): v for k_, v in by_idx.items()}))
                    # choices: every reference choice below the address is found in the sub-trace's map
                    for t in terms:
                        rest = _remaining(t[0], fp)
                        r = lookup(chm, rest)
                        if r is None or not bool(np.all(np.asarray(r[1]))) or not _val_eq(r[0], t[4]):
                            ctx.fail(comp, "get_subtrace", _cls(seq), "choices", dict(det, path=repr(t[0]), lookup=repr(rest), got=None if r is None else np.asarray(r[0]).tolist(), want=t[4]))
                            break
                        # the same oracle after an IndexRequest edit at every index of a top-level scan / vmap
                if node.kind in ("scan", "vmap") and switch_idx is None and getattr(node, "n", 0) > 0 and p is tree.paths[0]:
                    _after_index_edits(ctx, node, comp, args, asg, tr, seqs, key)
        ctx.sample(dict(program=node.name, addresses=[repr(s) for s in seqs[:4]]))

    return run


def _after_index_edits(ctx, node, comp, args, asg, tr, seqs, key):
    from genjax import ChoiceMap, Diff, IndexRequest, Update
    from ..space import alt_values
    from ..harness import make_chm, to_jax_args

    ret, R = ref_run(node, args, asg)
    for i in range(node.n):
        terms_i = [t for t in R.terms if t[0][0] == i]
        if not terms_i:
            continue
        t = terms_i[0]
        av = alt_values(t)
        if not av:
            continue
        req = IndexRequest(jnp.asarray(i, dtype=jnp.int32), Update(make_chm({t[0][1:]: av[0]})))
        try:
            tr2, w, rd, bwd = req.edit(key, tr, Diff.no_change(to_jax_args(args)))
        except (AssertionError, NotImplementedError):
            ctx.note("index_edit_outside_domain")
            continue
        asg2 = dict(asg)
        asg2[t[0]] = av[0]
        try:
            ret2, R2 = ref_run(node, args, asg2)
        except grammar.Missing:
            continue
        for seq in seqs:
            fp = flat(seq)
            terms = [x for x in R2.terms if static_part(x[0])[: len(fp)] == fp]
            ctx.ev((node.name, args_key(args), gfi.asg_key(asg2), repr(seq), "after_index_edit", i), nontrivial=True)
            try:
                sub = tr2.get_subtrace(*seq)
                score = np.asarray(sub.get_score(), dtype=np.float64)
            except Exception as e:
                ctx.fail(comp, "get_subtrace", _cls(seq) + ":after_index_edit", f"exception:{type(e).__name__}", dict(program=node.name, index=i, msg=str(e)[:200]))
                continue
            total = sum(x[1] for x in terms)
            if not close(float(score.sum()), total):
                ctx.fail(comp, "get_subtrace", _cls(seq) + ":after_index_edit", "score", dict(program=node.name, index=i, impl=score.tolist(), ref=total))
        # the parent's score is the sum of its sub-executions' contributions
        top = [seq for seq in seqs if len(seq) == 1]
        try:
            parts = sum(float(np.asarray(tr2.get_subtrace(*seq).get_score()).sum()) for seq in top)
            if top and not close(parts, float(np.asarray(tr2.get_score()))):
                ctx.fail(comp, "get_subtrace", "after_index_edit", "subtrace_scores_do_not_sum_to_parent_score", dict(program=node.name, index=i, parts=parts, parent=float(np.asarray(tr2.get_score()))))
        except Exception:
            pass


def _cls(seq):
    return ("tuple" if any(isinstance(a, tuple) for a in seq) else "plain") + f":len{len(seq)}"


def _prefix_ints(path, fp):
    """index components of `path` that precede the end of the matched static prefix: the axes over
    which the sub-trace is stacked (deeper vector levels are summed inside the sub-execution)"""
    out, k = [], 0
    for c in path:
        if k >= len(fp):
            break
        if isinstance(c, str):
            k += 1
        else:
            out.append(c)
    return out


def _remaining(path, fp):
    """path with the first len(fp) static components removed (index components kept in order)"""
    out, k = [], 0
    for c in path:
        if isinstance(c, str) and k < len(fp):
            k += 1
            continue
        out.append(c)
    return tuple(out)


def cases(tier, seed):
    f = Flip()
    for node in programs(tier):
        yield Case(node.name, _run(node, tier, seed), dict(program=node.name))
    sw = Switch([one(f, "a"), two(f, f)])
    for k in (0, 1):
        yield Case(f"{sw.name}@branch{k}", _run(sw, tier, seed, switch_idx=k), dict(program=sw.name, branch=k))
