"""C31 - The time-travel debugger records and replays executions faithfully.

Programs: E5 terms (mc/fgrammar.py) extended with record points

    ("rec", tag|None, ("fn", k, body), arg_1 .. arg_k)     rec(callable, tag)(args)   body over ("par", j)
    ("tag", name, t)                                        tag(value, name)
    ("tup", t1, t2) / ("get", j, t)                         pytree-valued arguments / return values

with 0-3 record points: sequential (dependent and independent), nested in arguments, nested inside a
recorded callable, duplicated tags, untagged, callables that close over constants, contain control flow or
multi-result primitives, return literals or pytrees.

Reference model (plain Python): the same term evaluated eagerly with `rec(g, t)(args)` replaced by
"append (t, args) to a log at call start, fill in g(args) at return".  The expected frame list of
`time_machine(f)(*args)` is  [("_enter", args, R)] + log + [("exit", (R,), R)]  with R = f(args).

Checked per (program, input):
  * final_retval == f(args); one frame per recorded call, in execution order, with its args and local retval
  * explicit-state search of the pointer machine: every sequence of {fwd, bwd, jump(tag) for every tag,
    jump(<unknown tag>)} up to depth 3 (quick) / 4 (thorough) is applied to the real debugger and to a list
    model in lock step: the pointer stays in range, frame()/summary() show the model's frame and tag, the
    recording itself is never modified, an unknown tag raises KeyError and leaves the state unchanged
  * remix(args') at every frame == plain re-execution with that call's arguments replaced (final value, the
    frame at the pointer, all later frames, pointer and frame count); the pointer machine is searched again
    on a remixed debugger.
"""

from __future__ import annotations

import itertools

from ..common import Case
from .. import fgrammar as G
from .c36 import compare

PROPERTY = "C31"
LEVEL = "model_checking"
RULE = (
    "one case per program (E5 term with 0-3 rec/tag points in the shapes: none, single, sequential dependent / "
    "independent, nested in arguments, nested inside a recorded callable, duplicated tags, untagged, pytree "
    "arguments / returns) x all 2^n inputs; states = (program, remixed?, pointer position); transitions = every "
    "jump/fwd/bwd application in every operation sequence up to the depth bound, each compared with a list model; "
    "remix at every frame with alternative arguments; distinct = (program, input, observable); non-trivial = the "
    "program has at least one user record point"
)
ASSUMPTIONS = [
    "record points sit at the top level of the traced function or inside recorded callables (a rec inside a cond/scan body or a nested jit is evaluated by the primitive's default implementation and is not a recorded call)",
    "recorded callables close over constants only (values of the enclosing function are passed as arguments)",
    "with duplicated tags jump(tag) may land on any frame recorded with that tag; which tag frame() displays for a duplicated tag is counted, not failed",
    "remix: frames before the pointer are not compared (the library keeps them as recorded); frames from the pointer on must equal re-execution",
    "values compared after jnp.asarray with 1e-4 relative float tolerance",
]
BOUNDS = {
    "quick": {"record_points": "0-3", "pointer_sequence_depth": 3, "inputs": "all 2^n", "remix_alternatives_per_frame": 1},
    "thorough": {"record_points": "0-3", "pointer_sequence_depth": 4, "inputs": "all 2^n", "remix_alternatives_per_frame": 2},
}
JOBS = {"quick": 6, "thorough": 16}

COMPONENT = "TimeTravelingDebugger"

# ----------------------------------------------------------------------------------------------
# program terms


def P(j):
    return ("par", j)


def A(n):
    return ("arg", n)


def L(v):
    return ("lit", v)


def Cn(n):
    return ("const", n)


def FN(k, body):
    return ("fn", k, body)


def REC(tag, fn, *args):
    return ("rec", tag, fn, *args)


def TAG(name, t):
    return ("tag", name, t)


# recorded callables (bodies over parameters, literals and constants only)
CALLABLES = {
    "aff": FN(1, ("add", ("mul", P(0), L(2.0)), L(1.0))),
    "const": FN(1, ("add", ("mul", P(0), Cn("cF")), ("idx", Cn("cV"), L(1)))),  # closes over constants
    "cjvp": FN(1, ("cjvp", P(0))),
    "while": FN(1, ("whileF", P(0))),
    "fori": FN(1, ("foriS", P(0))),
    "lit": FN(1, L(2.0)),  # ignores its argument, returns a literal
    "id": FN(1, P(0)),  # returns its argument directly
    "cond2": FN(2, ("condF", ("gt", P(0), P(1)), P(0), P(1))),
    "jit2": FN(2, ("jitF", P(0), P(1))),
    "add2": FN(2, ("add", P(0), P(1))),
    "nested": None,  # filled below: contain record points themselves
    "nested2": None,
}
CALLABLES["nested"] = FN(1, ("add", REC("in", CALLABLES["aff"], P(0)), L(1.0)))
CALLABLES["nested2"] = FN(1, REC("in2", CALLABLES["aff"], REC("in1", CALLABLES["cjvp"], ("neg", P(0)))))
UNARY = ["aff", "const", "cjvp", "while", "fori", "lit", "id"]
BINARY = ["cond2", "jit2", "add2"]

X, Y, V, I, B = A("x"), A("y"), A("v"), A("i"), A("b")


def count_recs(t) -> int:
    if not isinstance(t, tuple) or not t:
        return 0
    if t[0] in ("arg", "lit", "const", "par"):
        return 0
    if t[0] == "rec":
        return 1 + count_recs(t[2]) + sum(count_recs(c) for c in t[3:])
    if t[0] == "tag":
        return 1 + count_recs(t[2])
    if t[0] == "fn":
        return count_recs(t[2])
    if t[0] == "get":
        return count_recs(t[2])
    return sum(count_recs(c) for c in t[1:])


def pstr(t) -> str:
    k = t[0]
    if k == "arg":
        return t[1]
    if k == "par":
        return f"p{t[1]}"
    if k == "lit":
        return repr(t[1])
    if k == "const":
        return t[1]
    if k == "fn":
        return "\\" + str(t[1]) + "." + pstr(t[2])
    if k == "rec":
        return f"rec<{t[1]}>[" + pstr(t[2]) + "](" + ",".join(pstr(c) for c in t[3:]) + ")"
    if k == "tag":
        return f"tag<{t[1]}>(" + pstr(t[2]) + ")"
    if k == "get":
        return f"get{t[1]}(" + pstr(t[2]) + ")"
    return k + "(" + ",".join(pstr(c) for c in t[1:]) + ")"


def prog_args(t, acc=None):
    acc = [] if acc is None else acc
    if t[0] == "arg":
        if t[1] not in acc:
            acc.append(t[1])
    elif t[0] in ("lit", "const", "par"):
        pass
    elif t[0] == "rec":
        for c in t[3:]:
            prog_args(c, acc)
    elif t[0] in ("tag", "get"):
        prog_args(t[2], acc)
    elif t[0] == "fn":
        pass
    else:
        for c in t[1:]:
            prog_args(c, acc)
    return acc


def programs(tier: str):
    """(name, term) pairs, deterministic."""
    full = tier == "thorough"
    C = CALLABLES
    out = []

    def add(name, t):
        out.append((name, t))

    # ---- 0 record points
    add("n0:arith", ("add", X, Y))
    add("n0:cond", ("condF", B, X, L(2.0)))
    add("n0:scan", ("scanc", V, X))
    add("n0:direct_input", X)
    add("n0:literal", ("tup", L(2.0), X))
    add("n0:const", ("tup", Cn("cV"), ("topi", V)))
    # ---- 1 record point
    for n, c in enumerate(UNARY):
        add(f"n1:rec:{c}", ("mul", REC("a", C[c], ("add", X, L(1.0))), Y))
    for c in BINARY:
        add(f"n1:rec2:{c}", ("add", REC("a", C[c], X, Y), L(1.0)))
    add("n1:rec_is_output", REC("a", C["aff"], X))
    add("n1:rec_of_input_untagged", ("sin", REC(None, C["const"], X)))
    add("n1:tag_input", ("mul", TAG("t", X), Y))
    add("n1:tag_cond", TAG("t", ("condF", B, X, L(2.0))))
    add("n1:tag_vector", ("sum", TAG("t", ("sortW", V, Cn("cV")))))
    add("n1:rec_scan", ("add", REC("s", FN(2, ("scanc", P(0), P(1))), V, X), L(1.0)))
    add("n1:rec_vec", ("idx", REC("s", FN(1, ("sortW", P(0), Cn("cV"))), V), I))
    add("n1:rec_topk_int", ("idx", V, REC("k", FN(1, ("topi", P(0))), V)))
    add("n1:rec_tuple_ret", ("add", ("get", 0, REC("p", FN(1, ("tup", ("add", P(0), L(1.0)), ("mul", P(0), Cn("cF")))), X)), Y))
    add("n1:rec_tuple_arg", REC("p", FN(1, ("mul", ("get", 0, P(0)), ("sum", ("get", 1, P(0))))), ("tup", X, V)))
    add("n1:rec_const_arg", ("add", REC("a", C["aff"], L(2.0)), X))
    add("n1:between_multi_result", ("add", ("topv", V), ("mul", REC("a", C["aff"], ("tops", V)), ("scanc", V, L(2.0)))))
    add("n1:tuple_output", ("tup", REC("a", C["aff"], X), X, L(2.0)))
    add("n1:tag_pytree", ("get", 1, TAG("t", ("tup", X, ("vscale", V, X)))))
    add("n1:rec_no_args", ("add", REC("z", FN(0, ("add", Cn("cF"), L(2.0)))), X))
    add("n1:result_ignored", ("get", 1, ("tup", REC("a", C["aff"], X), ("mul", Y, L(2.0)))))
    add("n1:rec_bool_int_args", REC("m", FN(3, ("condF", P(0), ("idx", Cn("cV"), P(1)), P(2))), B, I, X))
    # ---- 2 record points
    pairs = list(itertools.product(UNARY, UNARY)) if full else [
        (UNARY[k % len(UNARY)], UNARY[(k * 3 + 1) % len(UNARY)]) for k in range(len(UNARY))
    ]
    for c1, c2 in pairs:
        add(f"n2:seq_dep:{c1}:{c2}", ("add", REC("b", C[c2], ("sin", REC("a", C[c1], X))), Y))
        if full:
            add(f"n2:nest_arg:{c1}:{c2}", REC("b", C[c2], REC("a", C[c1], X)))
    for c in BINARY:
        add(f"n2:seq_indep:{c}", ("mul", REC("a", C["aff"], X), REC("b", C[c], Y, L(2.0))))
        add(f"n2:args_of_binary:{c}", REC("c", C[c], TAG("l", X), Y))
    add("n2:nest_arg", REC("b", C["const"], REC("a", C["aff"], X)))
    add("n2:dup_tag", ("add", REC("a", C["aff"], X), REC("a", C["const"], Y)))
    add("n2:dup_tag_dep", REC("a", C["aff"], REC("a", C["aff"], X)))
    add("n2:nested_callable", ("mul", REC("out", C["nested"], X), L(3.0)))
    add("n2:tag_then_rec", REC("r", C["cond2"], TAG("t", X), L(0.25)))
    add("n2:untagged_both", ("add", REC(None, C["aff"], X), REC(None, C["cjvp"], Y)))
    add("n2:cond_between", ("condF", ("gt", REC("a", C["aff"], X), L(0.0)), REC("b", C["const"], Y), L(2.0)))
    add("n2:scan_between", REC("b", C["aff"], ("scanc", V, REC("a", C["const"], X))))
    # ---- 3 record points
    triples = list(itertools.product(UNARY[:4], UNARY[2:6], UNARY[3:7])) if full else [
        (UNARY[k % 7], UNARY[(k + 2) % 7], UNARY[(k * 2 + 3) % 7]) for k in range(5)
    ]
    for c1, c2, c3 in triples:
        add(f"n3:chain:{c1}:{c2}:{c3}", REC("c", C[c3], ("add", REC("b", C[c2], REC("a", C[c1], X)), Y)))
    for c in BINARY:
        add(f"n3:mixed:{c}", ("add", REC("c", C[c], REC("a", C["aff"], X), TAG("b", Y)), L(1.0)))
    add("n3:dup_aba", ("add", ("add", REC("a", C["aff"], X), REC("b", C["const"], Y)), REC("a", C["cjvp"], X)))
    add("n3:same_tag_thrice", REC("a", C["aff"], REC("a", C["aff"], REC("a", C["aff"], X))))
    add("n3:nested_callable_plus", ("add", REC("out", C["nested"], X), TAG("t", Y)))
    add("n3:nested2", ("mul", REC("out", C["nested2"], X), Y))
    add("n3:nested_dup_inner", ("add", TAG("in", X), REC("out", C["nested"], Y)))  # tag duplicated across nesting levels
    add("n3:tuple_flow", ("get", 1, REC("q", FN(1, ("tup", ("get", 1, P(0)), ("get", 0, P(0)))),
                                       REC("p", FN(2, ("tup", P(0), P(1))), TAG("t", X), V))))
    add("n3:control_flow_between", ("whereF", ("gt", REC("a", C["aff"], X), REC("b", C["aff"], Y)),
                                    REC("c", C["while"], ("switchF", I, X)), L(2.0)))
    seen = set()
    res = []
    for name, t in out:
        if name in seen:
            continue
        seen.add(name)
        assert count_recs(t) <= 3, name
        assert len(prog_args(t)) <= 3, name
        res.append((name, t))
    return res


# ----------------------------------------------------------------------------------------------
# evaluators


def _apply_op(op, vals):
    return G._impl()[op](*vals)


def build_real(term):
    """The real function: record points are genjax rec/tag."""
    from genjax._src.core.compiler.interpreters.time_travel import rec, tag

    names = [a for a in G.ARG_ORDER if a in prog_args(term)]

    def ev(t, env, params):
        k = t[0]
        if k == "arg":
            return env[t[1]]
        if k == "par":
            return params[t[1]]
        if k == "lit":
            return t[1]
        if k == "const":
            return G.const_value(t[1])
        if k == "tup":
            return tuple(ev(c, env, params) for c in t[1:])
        if k == "get":
            return ev(t[2], env, params)[t[1]]
        if k == "tag":
            return tag(ev(t[2], env, params), t[1])
        if k == "rec":
            body = t[2][2]
            args = [ev(c, env, params) for c in t[3:]]
            return rec(lambda *ps: ev(body, None, ps), t[1])(*args)
        return _apply_op(k, [ev(c, env, params) for c in t[1:]])

    def fn(*vals):
        return ev(term, dict(zip(names, vals)), ())

    return names, fn


class Override:
    def __init__(self, index, args):
        self.index = index
        self.args = tuple(args)


def ref_run(term, names, vals, override=None):
    """Plain execution with a call log: returns (retval, [(tag, args, retval), ...]) in call-start order."""
    log = []

    def ev(t, env, params):
        k = t[0]
        if k == "arg":
            return env[t[1]]
        if k == "par":
            return params[t[1]]
        if k == "lit":
            return t[1]
        if k == "const":
            return G.const_value(t[1])
        if k == "tup":
            return tuple(ev(c, env, params) for c in t[1:])
        if k == "get":
            return ev(t[2], env, params)[t[1]]
        if k == "tag":
            args = (ev(t[2], env, params),)
            return call(t[1], lambda a: a, args)
        if k == "rec":
            body = t[2][2]
            args = tuple(ev(c, env, params) for c in t[3:])
            return call(t[1], lambda *ps: ev(body, None, ps), args)
        return _apply_op(k, [ev(c, env, params) for c in t[1:]])

    def call(tagname, g, args):
        idx = len(log)
        if override is not None and idx == override.index:
            args = override.args
        log.append([tagname, args, None])
        r = g(*args)
        log[idx][2] = r
        return r

    ret = ev(term, dict(zip(names, vals)), ())
    return ret, [tuple(e) for e in log]


def ref_frames(term, names, vals):
    ret, log = ref_run(term, names, vals)
    return ret, [("_enter", tuple(vals), ret)] + log + [("exit", (ret,), ret)]


def ref_remix(term, names, vals, k, new_args, nframes):
    """Expected (final, frames from k on) after remix(new_args) at frame k of the recording of f(vals)."""
    if k == 0:
        ret, frames = ref_frames(term, names, new_args)
        return ret, frames
    if k == nframes - 1:
        (v,) = new_args
        return v, [("exit", (v,), v)]
    ret, log = ref_run(term, names, vals, Override(k - 1, new_args))
    return ret, log[k - 1 :] + [("exit", (ret,), ret)]


# ----------------------------------------------------------------------------------------------
# checks


def _fail(ctx, op, input_class, symptom, detail):
    ctx.fail(COMPONENT, op, input_class, symptom, detail)


def _program_class(name: str) -> str:
    return "record_points:" + name.split(":")[0][1:]


def check_frames(ctx, op, pclass, pid, bits, dbg_frames, dbg_tags, exp_frames, start=0, check_tags=True):
    """Compare library frames [start:] with expected frames (tag, args, ret)."""
    ok = True
    got = dbg_frames[start:]
    if len(got) != len(exp_frames):
        _fail(ctx, op, pclass, "frame_count",
              {"program": pid, "input": bits, "expected": len(exp_frames), "actual": len(got)})
        return False
    for j, (fr, (etag, eargs, eret)) in enumerate(zip(got, exp_frames)):
        d = compare(tuple(eargs), tuple(fr.args))
        if d is not None:
            ok = False
            _fail(ctx, op, pclass, "frame_args:" + d[0], {"program": pid, "input": bits, "frame": start + j, "tag": etag, **d[1]})
        d = compare(eret, fr.local_retval)
        if d is not None:
            ok = False
            _fail(ctx, op, pclass, "frame_local_retval:" + d[0], {"program": pid, "input": bits, "frame": start + j, "tag": etag, **d[1]})
        try:
            d = compare(eret, fr.f(*fr.args))
        except Exception as e:
            d = ("exception:" + type(e).__name__, {"error": str(e)[:300]})
        if d is not None:
            ok = False
            _fail(ctx, op, pclass, "frame_f_of_args:" + d[0], {"program": pid, "input": bits, "frame": start + j, "tag": etag, **d[1]})
    return ok


def pointer_machine(ctx, dbg, tags, depth, pid, pclass, label):
    """All operation sequences up to `depth` on the real debugger vs a list model, in lock step.

    tags: list of the tag of every frame (None for untagged)."""
    n = len(tags)
    seq0 = dbg.sequence
    frames0 = list(seq0)
    final0 = dbg.final_retval
    tagset = sorted({t for t in tags if t})
    dup = {t for t in tagset if tags.count(t) > 1}
    ops = [("fwd",), ("bwd",)] + [("jump", t) for t in tagset] + [("jump", "<no such tag>")]

    def observe(d, mptr, path):
        if not (isinstance(d.ptr, int) and 0 <= d.ptr < n):
            _fail(ctx, "pointer:" + path[-1][0] if path else "pointer:init", pclass, "pointer_out_of_range",
                  {"program": pid, "path": path, "ptr": d.ptr, "frames": n, "machine": label})
            return False
        if d.ptr != mptr:
            _fail(ctx, "pointer:" + path[-1][0] if path else "pointer:init", pclass, "pointer_differs_from_model",
                  {"program": pid, "path": path, "ptr": d.ptr, "model": mptr, "machine": label})
            return False
        ctx.state((pid, label, d.ptr))
        if len(d.sequence) != n or any(a is not b for a, b in zip(d.sequence, frames0)):
            _fail(ctx, "pointer:" + (path[-1][0] if path else "init"), pclass, "recording_modified",
                  {"program": pid, "path": path, "machine": label})
            return False
        try:
            shown_tag, shown = d.frame()
            fin, (stag2, shown2) = d.summary()
        except Exception as e:
            _fail(ctx, "pointer:frame", pclass, f"exception:{type(e).__name__}",
                  {"program": pid, "path": path, "error": str(e)[:300], "machine": label})
            return False
        if shown is not frames0[mptr] or shown2 is not frames0[mptr] or fin is not final0:
            _fail(ctx, "pointer:frame", pclass, "shown_frame_differs_from_model",
                  {"program": pid, "path": path, "ptr": d.ptr, "machine": label})
            return False
        if shown_tag != stag2:
            _fail(ctx, "pointer:frame", pclass, "frame_and_summary_disagree",
                  {"program": pid, "path": path, "frame_tag": shown_tag, "summary_tag": stag2, "machine": label})
            return False
        if shown_tag != tags[mptr]:
            if tags[mptr] in dup and shown_tag is None:
                ctx.note("duplicated_tag_displayed_as_None")
            else:
                _fail(ctx, "pointer:frame", pclass, "shown_tag_differs_from_model",
                      {"program": pid, "path": path, "ptr": d.ptr, "shown": shown_tag, "model": tags[mptr], "machine": label})
                return False
        return True

    def step(d, mptr, op, path):
        """Returns (new debugger, new model pointer) or None after a reported failure."""
        ctx.transition()
        if op[0] == "fwd":
            try:
                d2 = d.fwd()
            except Exception as e:
                _fail(ctx, "pointer:fwd", pclass, f"exception:{type(e).__name__}", {"program": pid, "path": path, "error": str(e)[:300]})
                return None
            return d2, min(mptr + 1, n - 1)
        if op[0] == "bwd":
            try:
                d2 = d.bwd()
            except Exception as e:
                _fail(ctx, "pointer:bwd", pclass, f"exception:{type(e).__name__}", {"program": pid, "path": path, "error": str(e)[:300]})
                return None
            return d2, max(mptr - 1, 0)
        t = op[1]
        if t not in tags:
            try:
                d2 = d.jump(t)
            except KeyError:
                ctx.note("jump_unknown_tag_KeyError")
                return d, mptr
            except Exception as e:
                _fail(ctx, "pointer:jump_unknown", pclass, f"exception:{type(e).__name__}", {"program": pid, "path": path, "error": str(e)[:300]})
                return None
            # accepted silently: must at least stay in range and unchanged
            return d2, mptr
        try:
            d2 = d.jump(t)
        except Exception as e:
            _fail(ctx, "pointer:jump", pclass, f"exception:{type(e).__name__}", {"program": pid, "path": path, "tag": t, "error": str(e)[:300]})
            return None
        allowed = [j for j, tt in enumerate(tags) if tt == t]
        if d2.ptr not in allowed:
            _fail(ctx, "pointer:jump", pclass, "jump_lands_on_frame_without_that_tag",
                  {"program": pid, "path": path, "tag": t, "ptr": d2.ptr, "allowed": allowed, "machine": label})
            return None
        return d2, d2.ptr  # nondeterministic model for duplicated tags: any frame with the tag

    if not observe(dbg, 0, []):
        return
    frontier = [(dbg, 0, [])]
    for _ in range(depth):
        nxt = []
        for d, mptr, path in frontier:
            for op in ops:
                p2 = path + [list(op)]
                r = step(d, mptr, op, p2)
                if r is None:
                    continue
                d2, m2 = r
                if observe(d2, m2, p2):
                    nxt.append((d2, m2, p2))
        frontier = nxt
    ctx.note("pointer_sequences_completed", len(frontier))


def _alt_args(cur_args, other_args, variant):
    """Alternative arguments of the same structure for remix."""
    import jax.numpy as jnp
    import jax.tree_util as jtu
    import numpy as np

    def bump(v):
        a = jnp.asarray(v)
        if a.dtype == jnp.bool_:
            return jnp.logical_not(a)
        if jnp.issubdtype(a.dtype, jnp.integer):
            return (a + 1) % 3
        return a * 0.5 - 1.25

    same = compare(tuple(cur_args), tuple(other_args)) is None
    if variant == 0 and not same:
        return tuple(jtu.tree_map(lambda v: jnp.asarray(v), tuple(other_args)))
    return tuple(jtu.tree_map(bump, tuple(cur_args)))


def run_program(ctx, name, term, tier, seed):
    from genjax._src.core.compiler.interpreters.time_travel import time_machine

    depth = BOUNDS[tier]["pointer_sequence_depth"]
    nalt = BOUNDS[tier]["remix_alternatives_per_frame"]
    pid = name
    pclass = _program_class(name)
    nrec = count_recs(term)
    names, f = build_real(term)
    alphas = [G.alphabet(a, seed) for a in names]
    ctx.sample({"program": name, "term": pstr(term), "args": names, "record_points": nrec})
    ctx.note("programs")
    ctx.note(f"programs_with_{nrec}_record_points")
    nontrivial = nrec > 0

    recordings = {}
    all_bits = list(itertools.product((0, 1), repeat=len(alphas)))
    for bits in all_bits:
        vals = tuple(al[b] for al, b in zip(alphas, bits))
        exp_ret, exp_frames = ref_frames(term, names, vals)
        ctx.ev((pid, "record", bits), nontrivial)
        try:
            dbg = time_machine(f)(*vals)
        except Exception as e:
            _fail(ctx, "time_machine", pclass, f"exception:{type(e).__name__}",
                  {"program": pid, "term": pstr(term), "input": bits, "error": str(e)[:400]})
            continue
        d = compare(exp_ret, dbg.final_retval)
        if d is not None:
            _fail(ctx, "time_machine", pclass, "final_retval:" + d[0], {"program": pid, "input": bits, **d[1]})
        frames = list(dbg.sequence)
        ok = check_frames(ctx, "time_machine", pclass, pid, bits, frames, None, exp_frames)
        ctx.outcome((pid, bits, len(frames)))
        if len(frames) != len(exp_frames):
            continue
        tags = [t for t, _, _ in exp_frames]
        # jump points must name frames recorded with that tag
        for t, j in dbg.jump_points.items():
            if not (isinstance(j, int) and 0 <= j < len(frames)) or tags[j] != t:
                _fail(ctx, "time_machine", pclass, "jump_point_names_wrong_frame",
                      {"program": pid, "input": bits, "tag": t, "index": j, "tags": tags})
        for t in set(tags) - {None}:
            if t not in dbg.jump_points:
                _fail(ctx, "time_machine", pclass, "tag_without_jump_point", {"program": pid, "input": bits, "tag": t})
        recordings[bits] = (vals, dbg, exp_frames, tags)

    if not recordings:
        return
    # ---- pointer machine on the first recording
    first = all_bits[0]
    if first in recordings:
        vals, dbg, exp_frames, tags = recordings[first]
        pointer_machine(ctx, dbg, tags, depth, pid, pclass, "recorded")

    # ---- remix at every frame
    remixed_for_machine = None
    for bits, (vals, dbg, exp_frames, tags) in recordings.items():
        other_bits = tuple(1 - b for b in bits)
        other = recordings.get(other_bits)
        nfr = len(exp_frames)
        for k in range(nfr):
            d_at = dbg
            for _ in range(k):
                d_at = d_at.fwd()
            if d_at.ptr != k:
                break  # already reported by the pointer machine
            cur_args = exp_frames[k][1]
            oth_args = other[2][k][1] if other is not None else cur_args
            for variant in range(nalt):
                new_args = _alt_args(cur_args, oth_args, variant)
                ctx.ev((pid, "remix", bits, k, variant), nontrivial)
                ctx.transition()
                op = "remix:enter" if k == 0 else "remix:exit" if k == nfr - 1 else "remix:frame"
                try:
                    exp_final, exp_tail = ref_remix(term, names, vals, k, new_args, nfr)
                except Exception as e:  # the reference itself cannot run these arguments
                    raise
                try:
                    r = d_at.remix(*new_args)
                except Exception as e:
                    _fail(ctx, op, pclass, f"exception:{type(e).__name__}",
                          {"program": pid, "input": bits, "frame": k, "error": str(e)[:400]})
                    continue
                if r.ptr != k:
                    _fail(ctx, op, pclass, "pointer_moved", {"program": pid, "input": bits, "frame": k, "ptr": r.ptr})
                if len(r.sequence) != nfr:
                    _fail(ctx, op, pclass, "frame_count",
                          {"program": pid, "input": bits, "frame": k, "expected": nfr, "actual": len(r.sequence)})
                    continue
                d = compare(exp_final, r.final_retval)
                if d is not None:
                    _fail(ctx, op, pclass, "final_retval:" + d[0], {"program": pid, "input": bits, "frame": k, **d[1]})
                check_frames(ctx, op, pclass, pid, bits, list(r.sequence), None, exp_tail, start=k)
                if any(a is not b for a, b in zip(r.sequence[:k], dbg.sequence[:k])):
                    ctx.note("remix_prefix_frames_replaced")
                if len(dbg.sequence) != nfr:
                    _fail(ctx, op, pclass, "original_recording_modified", {"program": pid, "input": bits, "frame": k})
                if remixed_for_machine is None and 0 < k < nfr - 1:
                    remixed_for_machine = (r, tags)
    if remixed_for_machine is not None:
        r, tags = remixed_for_machine
        # restart the machine at pointer 0 of the remixed recording (bwd until the start) - model: same tags
        d0 = r
        for _ in range(len(tags)):
            d0 = d0.bwd()
        if d0.ptr == 0:
            pointer_machine(ctx, d0, tags, max(1, depth - 1), pid, pclass, "remixed")


def cases(tier: str, seed: int):
    for name, term in programs(tier):
        yield Case(
            id=name,
            run=(lambda ctx, name=name, term=term: run_program(ctx, name, term, tier, seed)),
            describe={"program": name, "term": pstr(term), "record_points": count_recs(term)},
        )
