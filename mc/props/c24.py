"""C24 - Distribution wrappers agree with their TFP densities.

Enumerated: the table of ALL wrapper instances defined in
`genjax._src.generative_functions.distributions.tensorflow_probability` (47; the table is compared
with the module by introspection, a missing or extra name is a harness error) plus keyword-only
parameterisations (probs= / logits=) x parameter points {A, B scalar parameters, C = A and B stacked
into a batch of 2} x sample_shape in {(), (2,)} (kwarg `sample_shape`) x invocation form
{positional, keyword} x operations {simulate (eager + jit, 4 keys), assess, importance with a full
constraint, update with a new value, update with changed arguments, update with both}.

Oracle (the property's own): `tfd.<Dist>(**named parameters).log_prob(value)` built directly from
TFP by parameter NAME (so a positional mix-up in a wrapper is visible), summed over all axes.
 * simulate: score == oracle(value); shape == sample_shape + batch_shape + event_shape and dtype ==
   the TFP distribution's dtype (flip: bool) - decided for ALL keys by `jax.eval_shape`, and observed
   on 4 fixed keys, on which support membership (hand-written predicate per family) is also checked;
 * assess / importance / update: scores and weights == oracle sums / differences, values carried over;
 * keyword and positional invocations give the same trace for the same key (bit-identical value and
   score); a `Const`-wrapped sample_shape is equivalent to a plain tuple.
 * on 7 rows of different kinds: importance with the full-value constraint wrapped as Mask(v, flag),
   flag in {True, False, array(True), array(False)}: true = identical to the unmasked constraint;
   false = a fresh sample in the support, weight 0, trace score == oracle(sampled value); a following
   update must weigh with that score.
The randomness seam is not used (real TFP samplers).
"""

from __future__ import annotations

import math
import re
import warnings

import numpy as np

from ..common import Case, close

PROPERTY = "C24"
LEVEL = "exploration"
RULE = (
    "cases = wrapper rows (every wrapper instance of the module, plus keyword-only parameterisations); each case = "
    "parameter points x sample shapes x invocation forms x GFI operations; distinct = (wrapper, point, sample_shape, "
    "form, operation, key); non-trivial = the value under test has a finite oracle log-density and (for update) "
    "differs from the previous value or arguments"
)
ASSUMPTIONS = [
    "support membership of real TFP samples is observed on 4 fixed keys per (wrapper, point, sample_shape, form) only; "
    "dtype and shape are decided for all keys by abstract evaluation (jax.eval_shape)",
    "parameter points: 2 scalar points and their stacked batch per wrapper; sample_shape in {(), (2,)}; "
    "values for assess/importance/update are real samples drawn with other keys (always inside the support)",
    "the oracle is TFP itself (the property's own oracle): TFP's densities are not re-derived",
]
BOUNDS = {
    "quick": dict(wrappers=47, masked_constraint_rows=7, combos_per_row="(A,(),pos) all operations; (A,(),kw) shape/dtype + staged-computation equivalence "
                  "with the positional and closure forms; (C,(2,),kw) all operations; beta_quotient: (A,(),pos) simulate only", keys=4),
    "thorough": dict(wrappers=47, masked_constraint_rows=7, combos_per_row="{A,B,C} x {(),(2,)} x {pos,kw} all operations; beta_quotient: the quick combinations "
                     "of the other rows", keys=4),
}
JOBS = {"quick": 8, "thorough": 16}

KEYS = 4

# --------------------------------------------------------------------------------------------
# the table.  row: wrapper name, tfd class, parameter names in the order the wrapper receives them
# positionally, points A and B, support family, forms.

V3a, V3b = [0.1, -0.4, 0.6], [-1.0, 0.5, 0.0]
P3a, P3b = [0.2, 0.5, 0.3], [0.6, 0.1, 0.3]
LS = ((0.5, 1.2), (-1.0, 0.4))  # (loc, scale) points


def R(wrapper, cls, names, A, B, support, forms=("pos", "kw"), tag=None):
    return dict(id=wrapper + (f"[{tag}]" if tag else ""), wrapper=wrapper, cls=cls, names=tuple(names), A=tuple(A), B=tuple(B),
                support=support, forms=tuple(forms))


ROWS = [
    R("bernoulli", "Bernoulli", ["logits"], (-0.4,), (1.2,), "binary", tag="logits"),
    R("bernoulli", "Bernoulli", ["probs"], (0.3,), (0.8,), "binary", forms=("kw",), tag="probs"),
    R("beta", "Beta", ["concentration1", "concentration0"], (2.0, 3.0), (0.7, 1.5), "unit"),
    R("beta_binomial", "BetaBinomial", ["total_count", "concentration1", "concentration0"], (5.0, 2.0, 3.0), (3.0, 0.8, 1.2), "count_le_n"),
    R("beta_quotient", "BetaQuotient",
      ["concentration1_numerator", "concentration0_numerator", "concentration1_denominator", "concentration0_denominator"],
      (2.0, 3.0, 1.5, 2.5), (1.2, 2.2, 3.0, 1.5), "positive"),
    R("binomial", "Binomial", ["total_count", "logits"], (5.0, 0.3), (3.0, -0.7), "count_le_n", tag="logits"),
    R("binomial", "Binomial", ["total_count", "probs"], (4.0, 0.35), (6.0, 0.8), "count_le_n", forms=("kw",), tag="probs"),
    R("categorical", "Categorical", ["logits"], (V3a,), (V3b,), "index", tag="logits"),
    R("categorical", "Categorical", ["probs"], (P3a,), (P3b,), "index", forms=("kw",), tag="probs"),
    R("cauchy", "Cauchy", ["loc", "scale"], *LS, "real"),
    R("chi", "Chi", ["df"], (3.0,), (1.5,), "nonneg"),
    R("chi2", "Chi2", ["df"], (3.0,), (1.5,), "nonneg"),
    R("dirichlet", "Dirichlet", ["concentration"], ([1.0, 2.0, 0.5],), ([3.0, 1.0, 1.5],), "simplex"),
    R("dirichlet_multinomial", "DirichletMultinomial", ["total_count", "concentration"], (4.0, [1.0, 2.0, 0.5]), (3.0, [2.0, 1.0, 1.5]), "counts_sum_n"),
    R("double_sided_maxwell", "DoublesidedMaxwell", ["loc", "scale"], *LS, "real"),
    R("exp_gamma", "ExpGamma", ["concentration", "rate"], (2.0, 1.5), (0.8, 0.6), "real"),
    R("exp_inverse_gamma", "ExpInverseGamma", ["concentration", "scale"], (2.0, 1.5), (3.0, 0.6), "real"),
    R("exponential", "Exponential", ["rate"], (1.5,), (0.4,), "nonneg"),
    R("flip", "flip", ["p"], (0.3,), (0.8,), "bool"),
    R("gamma", "Gamma", ["concentration", "rate"], (2.0, 1.5), (0.8, 0.6), "nonneg"),
    R("geometric", "Geometric", ["logits"], (0.2,), (-0.8,), "count", tag="logits"),
    R("geometric", "Geometric", ["probs"], (0.3,), (0.7,), "count", forms=("kw",), tag="probs"),
    R("gumbel", "Gumbel", ["loc", "scale"], *LS, "real"),
    R("half_cauchy", "HalfCauchy", ["loc", "scale"], *LS, "ge_loc"),
    R("half_normal", "HalfNormal", ["scale"], (1.2,), (0.4,), "nonneg"),
    R("half_student_t", "HalfStudentT", ["df", "loc", "scale"], (3.0, 0.5, 1.2), (5.0, -1.0, 0.4), "ge_loc"),
    R("inverse_gamma", "InverseGamma", ["concentration", "scale"], (3.0, 1.5), (2.0, 0.6), "nonneg"),
    R("inverse_gaussian", "InverseGaussian", ["loc", "concentration"], (1.0, 2.0), (0.5, 1.2), "nonneg"),
    R("kumaraswamy", "Kumaraswamy", ["concentration1", "concentration0"], (2.0, 3.0), (0.7, 1.5), "unit"),
    R("lambert_w_normal", "LambertWNormal", ["loc", "scale", "tailweight"], (0.5, 1.2, 0.1), (-1.0, 0.4, 0.3), "real"),
    R("laplace", "Laplace", ["loc", "scale"], *LS, "real"),
    R("log_normal", "LogNormal", ["loc", "scale"], *LS, "nonneg"),
    R("logit_normal", "LogitNormal", ["loc", "scale"], *LS, "unit"),
    R("moyal", "Moyal", ["loc", "scale"], *LS, "real"),
    R("multinomial", "Multinomial", ["total_count", "logits"], (4.0, V3a), (3.0, V3b), "counts_sum_n", tag="logits"),
    R("multinomial", "Multinomial", ["total_count", "probs"], (4.0, P3a), (3.0, P3b), "counts_sum_n", forms=("kw",), tag="probs"),
    R("mv_normal_diag", "MultivariateNormalDiag", ["loc", "scale_diag"], ([0.5, -1.0], [1.2, 0.4]), ([0.0, 1.0], [0.7, 2.0]), "real"),
    R("mv_normal", "MultivariateNormalFullCovariance", ["loc", "covariance_matrix"],
      ([0.5, -1.0], [[1.5, 0.3], [0.3, 0.8]]), ([0.0, 1.0], [[0.5, -0.2], [-0.2, 1.1]]), "real"),
    R("negative_binomial", "NegativeBinomial", ["total_count", "logits"], (5.0, 0.3), (3.0, -0.7), "count", tag="logits"),
    R("negative_binomial", "NegativeBinomial", ["total_count", "probs"], (4.0, 0.35), (6.0, 0.6), "count", forms=("kw",), tag="probs"),
    R("non_central_chi2", "NoncentralChi2", ["df", "noncentrality"], (3.0, 1.5), (2.0, 0.4), "nonneg"),
    R("normal", "Normal", ["loc", "scale"], *LS, "real"),
    R("poisson", "Poisson", ["rate"], (2.5,), (0.7,), "count", tag="rate"),
    R("poisson", "Poisson", ["log_rate"], (0.9,), (-0.4,), "count", forms=("kw",), tag="log_rate"),
    R("power_spherical", "PowerSpherical", ["mean_direction", "concentration"], ([0.6, 0.8, 0.0], 2.0), ([0.0, 0.0, 1.0], 0.5), "sphere"),
    R("skellam", "Skellam", ["rate1", "rate2"], (2.0, 1.5), (0.6, 3.0), "integer"),
    R("student_t", "StudentT", ["df", "loc", "scale"], (3.0, 0.5, 1.2), (5.0, -1.0, 0.4), "real"),
    R("truncated_cauchy", "TruncatedCauchy", ["loc", "scale", "low", "high"], (0.5, 1.2, -1.0, 2.0), (-1.0, 0.4, -1.5, 0.0), "low_high"),
    R("truncated_normal", "TruncatedNormal", ["loc", "scale", "low", "high"], (0.5, 1.2, -1.0, 2.0), (-1.0, 0.4, -1.5, 0.0), "low_high"),
    R("uniform", "Uniform", ["low", "high"], (-1.0, 2.0), (0.5, 0.9), "low_high"),
    R("von_mises", "VonMises", ["loc", "concentration"], (0.5, 2.0), (-1.0, 0.4), "angle"),
    R("von_mises_fisher", "VonMisesFisher", ["mean_direction", "concentration"], ([0.6, 0.8, 0.0], 2.0), ([0.0, 0.0, 1.0], 0.5), "sphere"),
    R("weibull", "Weibull", ["concentration", "scale"], (1.5, 2.0), (0.8, 0.6), "nonneg"),
    R("zipf", "Zipf", ["power"], (2.0,), (3.5,), "count_ge1"),
    R("gamma", "Gamma", ["concentration", "log_rate"], (2.0, 0.4), (0.8, -0.5), "nonneg", forms=("kw",), tag="log_rate"),
    R("mv_normal_diag", "MultivariateNormalDiag", ["loc"], ([0.5, -1.0],), ([0.0, 1.0],), "real", tag="loc_only"),
]


def in_support(family, v, par):
    """hand-written support predicates (numpy); v: sample array, par: dict name -> numpy parameter"""
    v = np.asarray(v)
    f = v.astype(np.float64)
    fin = bool(np.all(np.isfinite(f)))
    integral = bool(np.all(f == np.round(f)))
    if family == "bool":
        return v.dtype == np.bool_
    if family == "binary":
        return bool(np.all((f == 0) | (f == 1)))
    if family == "unit":
        return fin and bool(np.all((f >= 0) & (f <= 1)))
    if family == "real":
        return fin
    if family == "nonneg" or family == "positive":
        return fin and bool(np.all(f >= 0))
    if family == "integer":
        return fin and integral
    if family == "count":
        return fin and integral and bool(np.all(f >= 0))
    if family == "count_ge1":
        return fin and integral and bool(np.all(f >= 1))
    if family == "count_le_n":
        return fin and integral and bool(np.all((f >= 0) & (f <= np.asarray(par["total_count"], dtype=np.float64))))
    if family == "index":
        k = np.shape(par.get("logits", par.get("probs")))[-1]
        return np.issubdtype(v.dtype, np.integer) and bool(np.all((f >= 0) & (f < k)))
    if family == "simplex":
        return fin and bool(np.all(f >= 0)) and bool(np.allclose(f.sum(-1), 1.0, atol=1e-4))
    if family == "counts_sum_n":
        n = np.asarray(par["total_count"], dtype=np.float64)
        return fin and integral and bool(np.all(f >= 0)) and bool(np.all(f.sum(-1) == n))
    if family == "ge_loc":
        return fin and bool(np.all(f >= np.asarray(par["loc"], dtype=np.float64) - 1e-6))
    if family == "low_high":
        lo, hi = np.asarray(par["low"], dtype=np.float64), np.asarray(par["high"], dtype=np.float64)
        return fin and bool(np.all((f >= lo - 1e-6) & (f <= hi + 1e-6)))
    if family == "angle":
        return fin and bool(np.all(np.abs(f) <= math.pi + 1e-5))
    if family == "sphere":
        return fin and bool(np.allclose(np.sqrt((f * f).sum(-1)), 1.0, atol=1e-4))
    raise KeyError(family)


# --------------------------------------------------------------------------------------------


_ADDR = re.compile(r"0x[0-9a-fA-F]+")


def jaxpr_signature(jaxpr):
    """structural fingerprint of a jaxpr (primitives, data flow, literal values, static parameters); two equal
    fingerprints + equal constants = the same staged computation.  (str(jaxpr) is far too slow for the
    hypergeometric series inside some TFP families.)"""
    import hashlib

    from jax import core as jcore
    from jax.extend import core as xcore

    Literal = getattr(xcore, "Literal", None) or getattr(jcore, "Literal")
    h = hashlib.blake2b(digest_size=16)

    def walk(jp):
        ids = {}

        def vid(v):
            if isinstance(v, Literal):
                return f"L{v.val!r}:{v.aval}"
            return f"v{ids.setdefault(id(v), len(ids))}:{v.aval}"

        h.update(("in " + " ".join(vid(v) for v in list(jp.constvars) + list(jp.invars))).encode())
        for eqn in jp.eqns:
            h.update((eqn.primitive.name + "(" + " ".join(vid(v) for v in eqn.invars) + ")->" + " ".join(vid(v) for v in eqn.outvars)).encode())
            for k in sorted(eqn.params):
                sub(k, eqn.params[k])
        h.update(("out " + " ".join(vid(v) for v in jp.outvars)).encode())

    def sub(k, p):
        h.update(k.encode())
        if hasattr(p, "jaxpr") and hasattr(p, "consts"):  # ClosedJaxpr
            walk(p.jaxpr)
            for c in p.consts:
                h.update(np.asarray(c).tobytes())
        elif hasattr(p, "eqns"):
            walk(p)
        elif isinstance(p, (tuple, list)):
            for i, q in enumerate(p):
                sub(f"{k}[{i}]", q)
        elif callable(p) or type(p).__name__ in ("WrappedFun",):
            h.update(getattr(p, "__name__", type(p).__name__).encode())
        else:
            h.update(_ADDR.sub("0x", repr(p)).encode())

    walk(jaxpr)
    return h.hexdigest()


def _points(row):
    import jax.numpy as jnp

    A = tuple(jnp.asarray(x, dtype=jnp.float32) for x in row["A"])
    B = tuple(jnp.asarray(x, dtype=jnp.float32) for x in row["B"])
    Cc = tuple(jnp.stack([a, b]) for a, b in zip(A, B))
    return dict(A=A, B=B, C=Cc)


# families whose TFP sampler / log_prob take 10-30 s to trace and compile (hypergeometric series): fewer combinations
HEAVY = {"beta_quotient"}


def _combos(tier, row):
    """(point, sample_shape, form, mode); mode: full = every operation; staged = shape/dtype + equivalence of the
    staged computation with the other form / the closure call; sim = shape/dtype + simulate on the fixed keys"""
    if tier == "quick":
        if row["wrapper"] in HEAVY:
            return [("A", (), "pos", "sim")]
        return [("A", (), "pos", "full"), ("A", (), "kw", "staged"), ("C", (2,), "kw", "full")]
    if row["wrapper"] in HEAVY:
        return [("A", (), "pos", "full"), ("A", (), "kw", "staged"), ("C", (2,), "kw", "full")]
    return [(pt, ss, form, "full") for pt in "ABC" for ss in ((), (2,)) for form in ("pos", "kw")]


# rows on which masked constraints are exercised (the code path is shared by all distributions)
MASKED_ROWS = {"normal", "flip", "categorical[logits]", "bernoulli[probs]", "log_normal", "mv_normal_diag", "uniform"}


def _other(pt):
    return {"A": "B", "B": "A", "C": "C"}[pt]


def _run(row, tier, seed):
    def run(ctx):
        warnings.filterwarnings("ignore")
        import jax
        import jax.numpy as jnp
        from genjax import ChoiceMapBuilder as C
        from genjax import Const, Diff
        from tensorflow_probability.substrates import jax as tfp

        import genjax._src.generative_functions.distributions.tensorflow_probability as T
        from ..harness import base_key

        tfd = tfp.distributions
        gf = getattr(T, row["wrapper"])
        names = row["names"]
        points = _points(row)
        comp = f"genjax.{row['wrapper']}"
        base = base_key(seed)
        keys = [jax.random.fold_in(base, i) for i in range(KEYS)]

        def oracle_dist(params):
            kw = dict(zip(names, params))
            if row["cls"] == "flip":
                return tfd.Bernoulli(probs=kw["p"], dtype=jnp.bool_)
            return getattr(tfd, row["cls"])(**kw)

        @jax.jit
        def _oracle(params, v):
            return jnp.sum(oracle_dist(params).log_prob(v))

        def oracle(params, v):
            return float(np.asarray(_oracle(params, v), dtype=np.float64))

        def mk_args(form, params, ss, const=False):
            ssv = Const(ss) if const else ss
            if form == "pos":
                return tuple(params) if ss == () else (tuple(params), {"sample_shape": ssv})
            kw = dict(zip(names, params))
            if ss != ():
                kw["sample_shape"] = ssv
            return ((), kw)

        def cval(tr):
            return tr.get_choices().get_value()

        jit_cache, ops_cache, drawn = {}, {}, {}
        plan = []
        for pt, ss, form, mode in _combos(tier, row):
            if form not in row["forms"]:
                form, mode = row["forms"][0], "full"
            if (pt, ss, form) not in [q[:3] for q in plan]:
                plan.append((pt, ss, form, mode))
        planned = {q[:3] for q in plan if q[3] == "full"}
        for pt, ss, form, mode in plan:
            params = points[pt]
            params2 = points[_other(pt)] if pt != "C" else tuple(p[::-1] for p in points["C"])
            args = mk_args(form, params, ss)
            args2 = mk_args(form, params2, ss)
            batch = "batched" if pt == "C" else "scalar"
            klass = f"{form}/{'sample_shape' if ss else 'no_sample_shape'}/{batch}"
            where = dict(wrapper=row["id"], point=pt, params={n: np.asarray(p) for n, p in zip(names, params)}, sample_shape=list(ss), form=form)
            par_np = {n: np.asarray(p) for n, p in zip(names, params)}
            od = oracle_dist(params)
            exp_shape = tuple(ss) + tuple(od.batch_shape) + tuple(od.event_shape)
            exp_dtype = np.dtype(od.dtype)

            def fail(op, symptom, **kw):
                ctx.fail(comp, op, klass, symptom, dict(**where, **kw))

            def guarded(op, fn):
                try:
                    return fn()
                except Exception as e:
                    ctx.ev((row["id"], pt, ss, form, op, "raised"), nontrivial=True)
                    fail(op, f"exception:{type(e).__name__}", error=str(e)[:300])
                    return None

            # (a) dtype / shape for all keys: abstract evaluation
            ctx.ev((row["id"], pt, ss, form, "eval_shape"), nontrivial=True)
            sd = guarded("eval_shape", lambda: jax.eval_shape(lambda k: gf.simulate(k, args).get_retval(), keys[0]))
            if sd is not None:
                if tuple(sd.shape) != exp_shape:
                    fail("eval_shape", "shape", expected=list(exp_shape), actual=list(sd.shape))
                if np.dtype(sd.dtype) != exp_dtype:
                    fail("eval_shape", "dtype", expected=str(exp_dtype), actual=str(sd.dtype))

            # (g) keyword == positional, closure call == direct call, Const-wrapped sample_shape == plain tuple:
            # the staged computations (jaxpr + constants) of `key -> (value, score)` must be identical, which
            # decides "same trace for the same key" for ALL keys; if the texts differ, both are executed.
            def staged(fn):
                cj = jax.make_jaxpr(fn)(keys[0])
                return jaxpr_signature(cj.jaxpr), [np.asarray(c) for c in cj.consts]

            def same_trace(op, fa, fb, what):
                ctx.ev((row["id"], pt, ss, form, op, what), nontrivial=True)
                try:
                    (ta, ca), (tb, cb) = staged(fa), staged(fb)
                    if ta == tb and len(ca) == len(cb) and all(np.array_equal(x, y) for x, y in zip(ca, cb)):
                        ctx.note("staged_identical")
                        return
                    ra, rb = jax.jit(fa)(keys[0]), jax.jit(fb)(keys[0])
                    ctx.note("staged_differ_executed")
                    if not all(np.array_equal(np.asarray(x), np.asarray(y)) for x, y in zip(ra, rb)):
                        fail(op, "trace", what=what, a=[np.asarray(x) for x in ra], b=[np.asarray(x) for x in rb])
                except Exception as e:
                    fail(op, f"exception:{type(e).__name__}", what=what, error=str(e)[:300])

            def tr_out(tr):
                return cval(tr), tr.get_score()

            main = lambda k: tr_out(gf.simulate(k, args))

            def staged_equivalences(direct):
                if direct and form == "kw" and "pos" in row["forms"]:
                    same_trace("kw_vs_pos", main, lambda k: tr_out(gf.simulate(k, mk_args("pos", params, ss))), "direct")
                kw = dict(zip(names, params)) if form == "kw" else {}
                pos = tuple(params) if form == "pos" else ()
                if ss:
                    kw["sample_shape"] = ss
                same_trace("kw_vs_pos", main, lambda k: tr_out(gf(*pos, **kw).simulate(k, ())), "closure")
                if ss:
                    same_trace("const_sample_shape", main, lambda k: tr_out(gf.simulate(k, mk_args(form, params, ss, const=True))), "Const")

            if mode == "staged":  # this form is compared with its twin at the level of the staged computation only
                staged_equivalences(direct=True)
                continue

            # (b) jitted simulate on the fixed keys: support, dtype/shape, score.  The parameters are arguments of
            # the jitted function (one compilation per (sample_shape, form, parameter shapes)); eager sampling
            # is avoided: TFP's rejection samplers re-compile their while-loops on every eager call.
            jsim = jit_cache.get((ss, form, pt == "C"))
            if jsim is None:
                def sim(k, prm, _form=form, _ss=ss):
                    tr = gf.simulate(k, mk_args(_form, prm, _ss))
                    return cval(tr), tr.get_score(), tr.get_retval()

                jsim = jit_cache[(ss, form, pt == "C")] = jax.jit(sim)
            samples, scores = [], []
            for ki, k in enumerate(keys):
                out = guarded("simulate", lambda: jsim(k, params))
                if out is None:
                    break
                v, sc, rv = out
                vn = np.asarray(v)
                samples.append(v)
                scores.append(sc)
                o = oracle(params, v)
                ctx.ev((row["id"], pt, ss, form, "simulate", ki), nontrivial=math.isfinite(o))
                if vn.shape != exp_shape:
                    fail("simulate", "shape", expected=list(exp_shape), actual=list(vn.shape))
                if vn.dtype != exp_dtype:
                    fail("simulate", "dtype", expected=str(exp_dtype), actual=str(vn.dtype))
                if not in_support(row["support"], vn, par_np):
                    fail("simulate", "support", value=vn, key=ki)
                if not close(sc, o):  # (a boundary sample with a non-finite TFP density is TFP's business: both sides agree)
                    fail("simulate", "score", value=vn, expected=o, actual=np.asarray(sc), key=ki)
                if not np.array_equal(np.asarray(rv), vn):
                    fail("simulate", "retval", value=vn, retval=np.asarray(rv))
            if len(samples) < KEYS:
                continue
            v0 = samples[0]
            # a second value, different from the first if any key gives one
            v1 = next((s for s in samples[1:] if not np.array_equal(np.asarray(s), np.asarray(v0))), samples[1])
            differs = not np.array_equal(np.asarray(v0), np.asarray(v1))
            o0, o1 = oracle(params, v0), oracle(params, v1)
            o0b, o1b = oracle(params2, v0), oracle(params2, v1)
            if pt == "A" and ctx.samples == []:
                ctx.sample(dict(**where, value=np.asarray(v0), score=o0))
            if mode == "sim":
                continue

            # (d)-(f) assess, importance (full constraint), update {new value, changed arguments, both} and the
            # closure form of assess: ONE jitted bundle per (sample_shape, form, parameter shapes) - eager TFP
            # log_prob of some families (BetaQuotient's hypergeometric loops) re-compiles on every call.
            def ops(k1, k2, prm, prm2, va, vb, _form=form, _ss=ss):
                a1, a2 = mk_args(_form, prm, _ss), mk_args(_form, prm2, _ss)
                out = {}
                sc, rv = gf.assess(C.v(vb), a1)
                out["assess"] = dict(score=sc, retval=rv)
                tr, w = gf.importance(k1, C.v(vb), a1)
                out["importance"] = dict(weight=w, score=tr.get_score(), value=cval(tr))
                tr_j, _ = gf.importance(k1, C.v(va), a1)
                for uname, chm, adiff in (
                    ("new_value", C.v(vb), Diff.no_change(a1)),
                    ("new_args", C.n(), Diff.unknown_change(a2)),
                    ("new_value_and_args", C.v(vb), Diff.unknown_change(a2)),
                ):
                    ntr, w, _rd, bwd = gf.update(k2, tr_j, chm, adiff)
                    out["update:" + uname] = dict(value=cval(ntr), score=ntr.get_score(), weight=w)
                ckw = dict(zip(names, prm)) if _form == "kw" else {}
                cpos = tuple(prm) if _form == "pos" else ()
                if _ss:
                    ckw["sample_shape"] = _ss
                out["closure_assess"] = dict(score=gf(*cpos, **ckw).assess(C.v(vb), ())[0])
                return out

            jops = ops_cache.get((ss, form, pt == "C"))
            if jops is None:
                jops = ops_cache[(ss, form, pt == "C")] = jax.jit(ops)
            res = guarded("bundle", lambda: jops(keys[1], keys[2], params, params2, v0, v1))
            if res is None:
                continue
            expect = {
                "assess": dict(score=o1, retval=v1),
                "importance": dict(weight=o1, score=o1, value=v1),
                "update:new_value": dict(value=v1, score=o1, weight=o1 - o0),
                "update:new_args": dict(value=v0, score=o0b, weight=o0b - o0),
                "update:new_value_and_args": dict(value=v1, score=o1b, weight=o1b - o0),
                "closure_assess": dict(score=o1),
            }
            for op, exp in expect.items():
                nontriv = math.isfinite(exp.get("score", 0.0)) and (differs or op not in ("update:new_value",))
                ctx.ev((row["id"], pt, ss, form, op), nontrivial=nontriv)
                for field, e in exp.items():
                    a = np.asarray(res[op][field])
                    ok = np.array_equal(a, np.asarray(e)) if field in ("value", "retval") else close(a, e)
                    if not ok:
                        fail(op if op != "closure_assess" else "kw_vs_pos", field, expected=np.asarray(e), actual=a,
                             value=np.asarray(v1), previous_value=np.asarray(v0))

            # (f') importance with the full-value constraint wrapped as Mask(v, flag) - what every non-addressed
            # index of a vmap sees -, followed by an update of that trace (which must weigh with the right old score)
            if row["id"] in MASKED_ROWS:
                for fname, flag in (("True", True), ("False", False), ("array(True)", jnp.array(True)), ("array(False)", jnp.array(False))):
                    is_arr = fname.startswith("array")
                    mop = f"importance:mask={fname}"
                    ck = (ss, form, pt == "C", "mask", "array" if is_arr else fname)
                    jm = ops_cache.get(ck)
                    if jm is None:
                        def mops(k1, k2, prm, va, vb, flg, _form=form, _ss=ss, _py=(None if is_arr else flag)):
                            a1 = mk_args(_form, prm, _ss)
                            tr, w = gf.importance(k1, C.v(vb).mask(flg if _py is None else _py), a1)
                            ntr, w2, _rd, _bwd = gf.update(k2, tr, C.v(va), Diff.no_change(a1))
                            return dict(value=cval(tr), score=tr.get_score(), weight=w,
                                        upd_value=cval(ntr), upd_score=ntr.get_score(), upd_weight=w2)

                        jm = ops_cache[ck] = jax.jit(mops)
                    ctx.ev((row["id"], pt, ss, form, mop), nontrivial=True)
                    ctx.note("masked_constraint_checks")
                    res = guarded(mop, lambda: jm(keys[1], keys[2], params, v0, v1, jnp.array(bool(flag))))
                    if res is None:
                        continue
                    got = np.asarray(res["value"])
                    if bool(flag):  # identical to the unmasked constraint
                        o_val, e_w = o1, o1
                        if not np.array_equal(got, np.asarray(v1)):
                            fail(mop, "value", expected=np.asarray(v1), actual=got)
                    else:  # unconstrained: a fresh sample, weight 0, score = its log-density
                        o_val, e_w = oracle(params, res["value"]), 0.0
                        if got.shape != exp_shape or got.dtype != exp_dtype:
                            fail(mop, "dtype", expected=[list(exp_shape), str(exp_dtype)], actual=[list(got.shape), str(got.dtype)])
                        elif not in_support(row["support"], got, par_np):
                            fail(mop, "support", value=got)
                    for field, e in (("score", o_val), ("weight", e_w), ("upd_score", o0), ("upd_weight", o0 - o_val)):
                        if not close(res[field], e):
                            fail(mop, field, expected=e, actual=np.asarray(res[field]), value=got, flag=fname)
                    if not np.array_equal(np.asarray(res["upd_value"]), np.asarray(v0)):
                        fail(mop, "upd_value", expected=np.asarray(v0), actual=np.asarray(res["upd_value"]))

            # (g) keyword == positional on the same keys (when both forms are run in full)
            drawn[(pt, ss, form)] = [(np.asarray(a), np.asarray(b)) for a, b in zip(samples, scores)]
            twin = drawn.get((pt, ss, "pos" if form == "kw" else "kw"))
            if twin is not None:  # the same keys through the other invocation form: bit-identical traces
                ctx.ev((row["id"], pt, ss, "kw_vs_pos", "samples"), nontrivial=True)
                ctx.note("kw_vs_pos_sample_comparisons", KEYS)
                if not all(np.array_equal(a[0], b[0]) and np.array_equal(a[1], b[1]) for a, b in zip(drawn[(pt, ss, form)], twin)):
                    fail("kw_vs_pos", "trace", what="4 keys", this=drawn[(pt, ss, form)][0], other=twin[0])
            staged_equivalences(direct=twin is None and (pt, ss, "pos") not in planned)

    return run


def _table_coverage(ctx):
    """the table must cover exactly the wrapper instances of the module (a new wrapper needs a row)"""
    import genjax._src.generative_functions.distributions.tensorflow_probability as T
    from genjax._src.generative_functions.distributions.distribution import ExactDensity

    have = {n for n, v in vars(T).items() if isinstance(v, ExactDensity)}
    table = {r["wrapper"] for r in ROWS}
    ctx.ev("table-coverage", nontrivial=False)
    ctx.note("wrappers", len(have))
    if have != table:
        raise RuntimeError(f"C24 table out of date: missing rows for {sorted(have - table)}, stale rows {sorted(table - have)}")


def cases(tier, seed):
    yield Case("table-coverage", _table_coverage, dict(rows=len(ROWS)))
    # slow-to-compile families first, so that the static round-robin partition spreads them over the workers
    slow = ["beta_quotient", "beta_binomial", "binomial", "beta", "dirichlet_multinomial", "non_central_chi2", "multinomial", "skellam"]
    order = sorted(ROWS, key=lambda r: slow.index(r["wrapper"]) if r["wrapper"] in slow else len(slow))
    for row in order:
        yield Case(row["id"], _run(row, tier, seed), dict(wrapper=row["wrapper"], tfd=row["cls"], parameters=list(row["names"]), forms=list(row["forms"])))
