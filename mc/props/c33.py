"""C33 - invalid_subset reports exactly the constraint addresses a model cannot trace.

Enumerated: a catalog of hand-written genjax models (static with nested call / tuple addresses,
vmap, repeat, scan, switch with disjoint and overlapping branches, switch whose branches are a bare
distribution and a structured function (the switch address is a leaf AND an internal node), mask,
vmap and scan nested in a static function) x argument variants x ALL subsets (quick: size <= 3, thorough: all 64) of a
6-address pool per model (valid addresses, a misspelled one, an address that is only valid under a
prefix, an invalid address under a valid prefix, indexed / un-indexed variants) x two ways of
building the choice map (`|` chain, `.at[..].set` chain).

Reference (independent of the library): the set T of static address paths that the program text
traces (written next to each model).  An entry of the choice map is traceable iff its address with
the index components removed is in T ("missing addresses and index nesting are ignored").
Oracle: `chm.invalid_subset(model, args)` is None iff every entry is traceable; otherwise it is
exactly the finite map of the untraceable entries (compared by public-API lookups of every pool
address, values included).
"""

from __future__ import annotations

import itertools
import os
import warnings

import numpy as np

from ..common import Case

PROPERTY = "C33"
LEVEL = "exploration"
RULE = (
    "cases = model x argument variant; inside a case ALL subsets (quick: size <= 3; thorough: every size) of the "
    "model's 6-address pool x 2 construction orders are evaluated; distinct = (model, args, subset, builder); "
    "non-trivial = the subset is non-empty (it collides with the corner when it mixes traceable and untraceable "
    "addresses, an address valid only under a prefix, or an indexed / un-indexed variant of a traced address)"
)
ASSUMPTIONS = [
    "the traceable address set T of each model is read off the program text (names only; index levels ignored, as "
    "the docstring and the repository tests state)",
    "subsets in which a value and a sub-map would share an address, or leaves of different shapes meet at one "
    "address, cannot be built (documented | restrictions) and are skipped",
    "the returned map is read with filter(at[static part]) followed by a lookup of the full address (plus a direct "
    "lookup when the subset has no index level beside a name level), so the C17 lookup defect on such maps does not "
    "leak into this property",
]
BOUNDS = {
    "quick": dict(models=14, arg_variants="1-3 per model (switch index array(0), 0; mask flag True, False, array(False))", pool=6, subset_size_max=3, builders="| chain for every subset, .at[..].set chain for every second subset of size >= 2", jit=False),
    "thorough": dict(models=14, arg_variants="1-3 per model (switch index array(0), 0, array(1); mask flag True, False, array(False))", pool=6, subset_size_max=6, builders="| chain for every subset, .at[..].set chain for every second subset of size >= 2", jit="size<=2 subsets"),
}
JOBS = {"quick": 8, "thorough": 12}

SL = "<slice>"  # full-slice level in a pool address
N = 3

_lib = {}


def lib():
    if not _lib:
        os.environ.setdefault("JAX_PLATFORMS", "cpu")
        warnings.filterwarnings("ignore", category=DeprecationWarning)
        import jax
        import jax.numpy as jnp
        import genjax
        from genjax import ChoiceMap, ChoiceMapBuilder, Selection
        from genjax._src.core.generative.functional_types import Mask
        from genjax._src.core.generative.choice_map import ChoiceMapNoValueAtAddress

        _lib.update(jax=jax, jnp=jnp, genjax=genjax, ChoiceMap=ChoiceMap, C=ChoiceMapBuilder,
                    Selection=Selection, Mask=Mask, NoValue=ChoiceMapNoValueAtAddress)
    return _lib


# =============================================================================================
# models: name -> (builder() -> gen_fn, [args variants (builders)], T, pool)
# pool entries: address tuples over names / ints / SL.  An address with SL carries a length-3 vector.


def _models():
    L = lib()
    genjax, jnp = L["genjax"], L["jnp"]
    gen = genjax.gen

    @gen
    def inner(x):
        a = genjax.normal(x, 1.0) @ "a"
        b = genjax.bernoulli(probs=0.5) @ "b"
        return a + b

    @gen
    def static3(x):
        v = genjax.normal(x, 1.0) @ "x"
        w = genjax.normal(v, 1.0) @ "w"
        s = inner(w) @ "sub"
        return s

    @gen
    def static_tuple(x):
        v = genjax.normal(x, 1.0) @ ("x",)
        w = genjax.normal(v, 1.0) @ ("u", "v")
        s = inner(w) @ ("s", "t")
        return s

    @gen
    def static_str_and_tuple(x):
        v = genjax.normal(x, 1.0) @ "x"
        w = genjax.normal(v, 1.0) @ ("u", "v")
        return w

    vmap_static = inner.vmap(in_axes=(0,))
    repeat_static = inner.repeat(n=N)

    @gen
    def kernel(carry, x):
        y = genjax.normal(carry + x, 1.0) @ "x"
        z = genjax.normal(y, 1.0) @ "y"
        return z, y

    scan_kernel = genjax.scan(n=N)(kernel)

    @gen
    def m_x():
        return genjax.normal(0.0, 1.0) @ "x"

    @gen
    def m_y_sub():
        y = genjax.normal(0.0, 1.0) @ "y"
        s = inner(y) @ "sub"
        return s

    switch_disjoint = genjax.switch(m_x, m_y_sub)

    @gen
    def b_xs():
        x = genjax.normal(0.0, 1.0) @ "x"
        s = genjax.normal(x, 1.0) @ "s"
        return s

    @gen
    def b_xt():
        x = genjax.normal(1.0, 1.0) @ "x"
        t = genjax.normal(x, 1.0) @ "t"
        return t

    sw_overlap = genjax.switch(b_xs, b_xt)

    @gen
    def switch_overlap_in_static():
        c = genjax.categorical(probs=[0.5, 0.5]) @ "choice"
        return sw_overlap(c, (), ()) @ "out"

    mask_static = inner.mask()

    @gen
    def vmap_in_static(x):
        v = genjax.normal(x, 1.0) @ "x"
        ys = inner.vmap(in_axes=(0,))(jnp.arange(float(N)) + v) @ "ys"
        return jnp.sum(ys)

    @gen
    def step(c):
        return genjax.normal(c, 1.0) @ "x"

    @gen
    def scan_in_static(x):
        s = inner(x) @ "s"
        out = step.iterate(n=N)(s) @ "steps"
        return out

    @gen
    def masked_in_static(x):
        f = genjax.flip(0.5) @ "f"
        r = inner.mask()(f, x) @ "m"
        return r

    # switch whose branches disagree about the *kind* of the switch address: a bare distribution makes
    # the address itself a traceable leaf, a structured branch makes it an internal node.  The shape
    # selection there is LeafSel | StaticSel(..) - the only way to reach OrSel.check.
    @gen
    def struct_y():
        return genjax.uniform(0.0, 1.0) @ "y"

    sw_leaf_struct = genjax.switch(genjax.normal, struct_y)

    @gen
    def switch_leaf_and_struct_in_static():
        c = genjax.categorical(probs=[0.3, 0.7]) @ "choice"
        return sw_leaf_struct(c, (0.0, 1.0), ()) @ "out"

    @gen
    def struct_y_sub(x):
        y = genjax.normal(x, 1.0) @ "y"
        s = inner(y) @ "sub"
        return s

    sw_struct_leaf = genjax.switch(struct_y_sub, genjax.uniform)

    @gen
    def switch_struct_and_leaf_in_static(idx):
        v = genjax.normal(0.0, 1.0) @ "x"
        return sw_struct_leaf(idx, (v,), (0.0, 1.0)) @ "out"

    arr = lambda: jnp.zeros(N)  # noqa: E731
    M = {}
    M["switch_leaf_and_struct_in_static"] = dict(
        gf=switch_leaf_and_struct_in_static, args=[lambda: ()],
        T={("choice",), ("out",), ("out", "y")},
        pool=[("out",), ("out", "y"), ("out", "q"), ("out", "y", "deeper"), ("extra",), ("choice",)],
    )
    M["switch_struct_and_leaf_in_static"] = dict(
        gf=switch_struct_and_leaf_in_static, args=[lambda: (jnp.array(1),), lambda: (jnp.array(0),)],
        T={("x",), ("out",), ("out", "y"), ("out", "sub", "a"), ("out", "sub", "b")},
        pool=[("out",), ("out", "sub", "a"), ("out", "sub"), ("out", "y", "deeper"), ("extra",), ("x",)],
    )
    M["static3"] = dict(
        gf=static3, args=[lambda: (0.5,)], T={("x",), ("w",), ("sub", "a"), ("sub", "b")},
        pool=[("x",), ("sub", "a"), ("xx",), ("sub", "c"), ("a",), (0, "x")],
    )
    M["static_tuple"] = dict(
        gf=static_tuple, args=[lambda: (0.5,)], T={("x",), ("u", "v"), ("s", "t", "a"), ("s", "t", "b")},
        pool=[("x",), ("u", "v"), ("u", "w"), ("v",), ("s", "t", "a"), (1, "u", "v")],
    )
    M["static_str_and_tuple"] = dict(
        gf=static_str_and_tuple, args=[lambda: (0.5,)], T={("x",), ("u", "v")},
        pool=[("x",), ("u", "v"), ("xx",), ("v",), ("u", "w"), (0, "x")],
    )
    M["vmap_static"] = dict(
        gf=vmap_static, args=[lambda: (arr(),)], T={("a",), ("b",)},
        pool=[(SL, "a"), (1, "b"), (SL, "zz"), (2, "c"), ("b",), (0, 1, "a")],
    )
    M["repeat_static"] = dict(
        gf=repeat_static, args=[lambda: (0.5,)], T={("a",), ("b",)},
        pool=[(SL, "a"), (SL, "b"), ("aa",), (1, "c"), ("a", "b"), (0, "b")],
    )
    M["scan_kernel"] = dict(
        gf=scan_kernel, args=[lambda: (0.0, arr())], T={("x",), ("y",)},
        pool=[(SL, "x"), (1, "y"), (SL, "xx"), (0, "z"), ("y",), (1, 1, "y")],
    )
    M["switch_disjoint"] = dict(
        gf=switch_disjoint,
        args=[lambda: (jnp.array(0), (), ()), lambda: (0, (), ()), lambda: (jnp.array(1), (), ())],
        T={("x",), ("y",), ("sub", "a"), ("sub", "b")},
        pool=[("x",), ("y",), ("sub", "a"), ("a",), ("z",), (0, "y")],
    )
    M["switch_overlap_in_static"] = dict(
        gf=switch_overlap_in_static, args=[lambda: ()],
        T={("choice",), ("out", "x"), ("out", "s"), ("out", "t")},
        pool=[("choice",), ("out", "x"), ("out", "t"), ("out", "q"), ("x",), ("out", 0, "s")],
    )
    M["mask_static"] = dict(
        gf=mask_static, args=[lambda: (True, 0.5), lambda: (False, 0.5), lambda: (jnp.array(False), 0.5)],
        T={("a",), ("b",)},
        pool=[("a",), ("b",), ("c",), (0, "a"), ("sub", "a"), ("bb",)],
    )
    M["vmap_in_static"] = dict(
        gf=vmap_in_static, args=[lambda: (0.5,)], T={("x",), ("ys", "a"), ("ys", "b")},
        pool=[("x",), ("ys", SL, "a"), ("ys", 1, "b"), ("ys", SL, "c"), ("a",), ("ys", "b")],
    )
    M["scan_in_static"] = dict(
        gf=scan_in_static, args=[lambda: (0.5,)], T={("s", "a"), ("s", "b"), ("steps", "x")},
        pool=[("s", "a"), ("steps", SL, "x"), ("steps", 2, "x"), ("steps", "a"), ("x",), ("s", "x")],
    )
    M["masked_in_static"] = dict(
        gf=masked_in_static, args=[lambda: (0.5,)], T={("f",), ("m", "a"), ("m", "b")},
        pool=[("f",), ("m", "a"), ("m", "c"), ("a",), ("m", 0, "b"), ("ff",)],
    )
    return M


MODEL_NAMES = [
    "static3", "static_tuple", "static_str_and_tuple", "vmap_static", "repeat_static", "scan_kernel",
    "switch_disjoint", "switch_overlap_in_static", "mask_static", "vmap_in_static", "scan_in_static",
    "masked_in_static", "switch_leaf_and_struct_in_static", "switch_struct_and_leaf_in_static",
]
N_ARGS = {"switch_disjoint": 3, "mask_static": 3, "switch_struct_and_leaf_in_static": 2}

# =============================================================================================
# reference


def static_part(addr):
    return tuple(c for c in addr if isinstance(c, str) and c != SL)


def is_idx(c):
    return c == SL or not isinstance(c, str)


def pool_value(k, addr):
    """distinct exactly representable values; a vector for slice addresses"""
    base = 10.0 * (k + 1)
    if SL in addr:
        return np.array([base + 1, base + 2, base + 3], np.float32)
    return np.float32(base + 1)


def _unify(a, b):
    if is_idx(a) != is_idx(b):
        return False
    if not is_idx(a):
        return a == b
    if isinstance(a, int) and isinstance(b, int):
        return a == b
    return True


def buildable(addrs):
    """no value/sub-map clash and no shape clash between the chosen entries (| restrictions)"""
    def views(a):
        yield a
        if SL in a:
            yield tuple(c for c in a if c != SL)

    for a, b in itertools.permutations(addrs, 2):
        for x in views(a):
            for y in views(b):
                if len(x) < len(y) and all(_unify(p, q) for p, q in zip(x, y)):
                    return False
    for a, b in itertools.combinations(addrs, 2):
        x = tuple(c for c in a if c != SL)
        y = tuple(c for c in b if c != SL)
        if len(x) == len(y) and all(_unify(p, q) for p, q in zip(x, y)) and ((SL in a) != (SL in b)):
            return False
    return True


def mixed_sort(addrs):
    for a, b in itertools.combinations(addrs, 2):
        for p in range(min(len(a), len(b))):
            if not all(_unify(x, y) for x, y in zip(a[:p], b[:p])):
                break
            if is_idx(a[p]) != is_idx(b[p]):
                return True
    return False


# =============================================================================================
# library side


def lib_addr(addr):
    return tuple(slice(None, None, None) if c == SL else c for c in addr)


def build_chm(entries, builder):
    """entries: list of (addr, library-ready value)."""
    L = lib()
    C, ChoiceMap = L["C"], L["ChoiceMap"]
    chm = ChoiceMap.empty()
    for addr, v in entries:
        if builder == "or":
            chm = chm | C[lib_addr(addr)].set(v)
        else:
            chm = chm.at[lib_addr(addr)].set(v)
    return chm


def lib_value(v):
    return lib()["jnp"].asarray(v) if np.ndim(v) else float(v)


def read(result, addr, direct):
    """-> list of readings, each None (absent) or (value, flag); via filter(at[static part]) and,
    if `direct`, also by a plain lookup."""
    L = lib()
    Selection, NoValue, Mask = L["Selection"], L["NoValue"], L["Mask"]
    sp = static_part(addr)
    la = lib_addr(addr)
    la = la[0] if len(la) == 1 else la
    outs = []
    routes = [result.filter(Selection.at[sp] if len(sp) != 1 else Selection.at[sp[0]])]
    if direct:
        routes.append(result)
    for m in routes:
        try:
            v = m[la]
        except NoValue:
            outs.append(None)
            continue
        if isinstance(v, Mask):
            outs.append((np.asarray(v.value), np.asarray(v.primal_flag())))
        else:
            outs.append((np.asarray(v), np.bool_(True)))
    return outs


def _run(name, ai, tier, half):
    def run(ctx):
        L = lib()
        M = _models()[name]
        gf, T, pool = M["gf"], M["T"], M["pool"]
        args = M["args"][ai]()
        kmax = BOUNDS[tier]["subset_size_max"]
        idxs = range(len(pool))
        ctx.sample(dict(model=name, traceable=sorted(T), pool=[list(map(str, p)) for p in pool]))
        n_sub = 0
        for k in range(0, kmax + 1):
            for sub in itertools.combinations(idxs, k):
                addrs = [pool[i] for i in sub]
                if not buildable(addrs):
                    ctx.note("subsets_not_buildable")
                    continue
                entries = [(pool[i], pool_value(i, pool[i])) for i in sub]
                invalid = [i for i in sub if static_part(pool[i]) not in T]
                mixed = mixed_sort(addrs)
                n_sub += 1
                if n_sub % 2 != half:
                    continue  # the other half of the subsets is the sibling case
                for builder in ("or", "at") if ((n_sub // 2) % 2 == 0 and k >= 2) else ("or",):
                    key = (name, ai, sub, builder)
                    ctx.ev(key, nontrivial=k > 0)
                    detail = dict(model=name, args_variant=ai, subset=[list(map(str, a)) for a in addrs],
                                  builder=builder, expected_invalid=[list(map(str, pool[i])) for i in invalid])
                    cls = _input_class(addrs, invalid, sub)
                    try:
                        chm = build_chm([(a, lib_value(v)) for a, v in entries], builder)
                    except Exception as e:  # noqa: BLE001
                        ctx.fail(name.split("_")[0], "build_constraint", cls, f"exception:{type(e).__name__}",
                                 dict(detail, message=str(e)[:200]))
                        continue
                    try:
                        res = chm.invalid_subset(gf, args)
                    except Exception as e:  # noqa: BLE001
                        # an exception does not depend on the subset: class = the model
                        ctx.fail(_component(name), "invalid_subset", "model:" + name, f"exception:{type(e).__name__}",
                                 dict(detail, message=str(e)[:200]))
                        continue
                    _compare(ctx, name, cls, detail, res, pool, sub, invalid, mixed)
        if tier == "thorough" and half == 0:
            _jit_pass(ctx, name, ai, gf, args, T, pool)

    return run


def _component(name):
    return {
        "static3": "static", "static_tuple": "static", "static_str_and_tuple": "static",
        "vmap_static": "vmap", "repeat_static": "repeat", "scan_kernel": "scan",
        "switch_disjoint": "switch", "switch_overlap_in_static": "switch", "mask_static": "mask",
        "vmap_in_static": "vmap", "scan_in_static": "scan", "masked_in_static": "mask",
        "switch_leaf_and_struct_in_static": "switch", "switch_struct_and_leaf_in_static": "switch",
    }[name]


def _input_class(addrs, invalid, sub):
    if not sub:
        return "empty_map"
    if not invalid:
        return "all_traceable"
    if len(invalid) == len(sub):
        return "none_traceable"
    return "mixed_traceable_untraceable"


def _compare(ctx, name, cls, detail, res, pool, sub, invalid, mixed, mode="eager"):
    comp = _component(name)
    if not invalid:
        if res is not None:
            ctx.fail(comp, "invalid_subset", cls, "not_none_for_traceable_map", dict(detail, mode=mode, got=repr(res)[:300]))
        return
    if res is None:
        ctx.fail(comp, "invalid_subset", cls, "none_for_untraceable_map", dict(detail, mode=mode))
        return
    for i, addr in enumerate(pool):
        want = i in invalid
        if i not in sub and any(is_idx(c) for c in addr):
            # an index is only probed at addresses the constraint map itself contains (an int or slice
            # lookup on a map without that index level is outside the finite-map model)
            ctx.note("foreign_indexed_addresses_not_probed")
            continue
        try:
            # direct lookups only where they are inside the finite-map model: no index level beside a
            # name level, and an int is only probed at an address the result is expected to hold
            direct = (not mixed) and (want or not any(is_idx(c) for c in addr))
            readings = read(res, addr, direct=direct)
        except Exception as e:  # noqa: BLE001
            ctx.fail(comp, "read_result", cls, f"exception:{type(e).__name__}",
                     dict(detail, mode=mode, address=list(map(str, addr)), message=str(e)[:200]))
            continue
        ctx.note("result_lookups", len(readings))
        for r in readings:
            if want:
                exp = pool_value(i, addr)
                ok = r is not None and bool(np.all(r[1])) and np.shape(r[0]) == np.shape(exp) and np.array_equal(r[0], exp)
                if not ok:
                    ctx.fail(comp, "invalid_subset", cls, "untraceable_address_missing",
                             dict(detail, mode=mode, address=list(map(str, addr)), got=None if r is None else r))
            else:
                if r is not None and bool(np.any(r[1])):
                    sym = "traceable_address_reported" if i in sub else "foreign_address_reported"
                    ctx.fail(comp, "invalid_subset", cls, sym,
                             dict(detail, mode=mode, address=list(map(str, addr)), got=r))


def _jit_pass(ctx, name, ai, gf, args, T, pool):
    """thorough: the same oracle with the constraint values traced under jax.jit (size <= 2 subsets)."""
    L = lib()
    jax, jnp = L["jax"], L["jnp"]
    for k in (1, 2):
        for sub in itertools.combinations(range(len(pool)), k):
            addrs = [pool[i] for i in sub]
            if not buildable(addrs):
                continue
            invalid = [i for i in sub if static_part(pool[i]) not in T]
            mixed = mixed_sort(addrs)
            vals = [jnp.asarray(pool_value(i, pool[i])) for i in sub]
            box = {}

            def f(vs):
                chm = build_chm(list(zip(addrs, vs)), "or")
                res = chm.invalid_subset(gf, args)
                box["none"] = res is None
                return res

            detail = dict(model=name, args_variant=ai, subset=[list(map(str, a)) for a in addrs], builder="or",
                          expected_invalid=[list(map(str, pool[i])) for i in invalid])
            cls = _input_class(addrs, invalid, sub)
            ctx.ev((name, ai, sub, "jit"), nontrivial=True)
            try:
                res = jax.jit(f)(vals)
            except Exception as e:  # noqa: BLE001
                ctx.fail(_component(name), "invalid_subset", "model:" + name, f"exception:{type(e).__name__}",
                         dict(detail, mode="jit", message=str(e)[:200]))
                continue
            _compare(ctx, name, cls, detail, res, pool, sub, invalid, mixed, mode="jit")


def cases(tier, seed):
    for name in MODEL_NAMES:
        n_args = N_ARGS.get(name, 1)
        if tier == "quick" and name == "switch_disjoint":
            n_args = 2  # array(0) and the concrete index 0; array(1) is added in the thorough tier
        if tier == "quick" and name == "switch_struct_and_leaf_in_static":
            n_args = 1  # index array(1) (the leaf branch); array(0) is added in the thorough tier
        for ai in range(n_args):
            for half in (0, 1):  # two cases per model: the subsets are dealt out alternately
                yield Case(f"{name}/args{ai}/h{half}", _run(name, ai, tier, half),
                           dict(model=name, args_variant=ai, subsets="every second subset, offset %d" % half))
