"""C23 - GFI results are invariant under jax.jit and consistent under jax.vmap.

Enumerated: catalog programs x operations {simulate, assess, importance, update, Regenerate edit,
project} x random outcomes {default path, every alternative of the first branch point} evaluated
  (a) eagerly with concrete Python arguments (bool flags and int indices stay Python objects),
  (b) under jax.jit with traced arguments,
  (c) under jax.vmap over keys, over arguments and over constraint values (batch 2), compared with the
      unbatched call on each slice,
all under the SAME decision table of the randomness seam (sites are identified by the consumed key, so
the same random outcomes are replayed in every mode).  Oracle: equality of score, weight, return value
and the choice map read as a finite map (1e-4 relative on floats, exact elsewhere)."""

from __future__ import annotations

import jax
import jax.numpy as jnp
import numpy as np

from genjax import ChoiceMap, Diff, Update, Regenerate, Selection

from ..common import Case, close
from .. import gfi, grammar, seam
from ..grammar import component_of, ref_run
from ..harness import Prog, args_key, base_key, choices_to_asg, make_chm, norm_ret, cmp_ret, to_jax_args
from ..space import Space, alt_values, build_selection, static_addresses
from ..bfs import _tree_close, _val_eq
from .c02 import hash_name, _has_clash
from ._bfsprop import _n_sites

PROPERTY = "C23"
LEVEL = "exploration"
RULE = (
    "programs x operations x random outcomes (default + alternatives of the first branch point) x evaluation modes "
    "(eager/concrete, jit/traced, vmap over keys / arguments / constraint values vs per-slice calls) under one seam "
    "decision table; distinct = (program, op, outcome, mode); non-trivial = mode differs from the baseline"
)
ASSUMPTIONS = ["baseline = the jitted call with traced arguments", "float tolerance 1e-4 relative (jit may reassociate)"]
BOUNDS = {"quick": dict(programs="statics + depth-1 + a slice of depth-2", alts=2), "thorough": dict(programs="catalog", alts=4)}
JOBS = {"quick": 14, "thorough": 16}


def _obs_equal(a, b, paths_all):
    """compare two observation dicts as finite maps"""
    if not close(a["score"], b["score"]):
        return "score"
    if "weight" in a and not close(a["weight"], b["weight"]):
        return "weight"
    if not cmp_ret(norm_ret(a["retval"]), norm_ret(b["retval"])):
        return "retval"
    try:
        aa, bb = choices_to_asg(paths_all, a["choices"]), choices_to_asg(paths_all, b["choices"])
    except ValueError:
        return None
    if set(aa) != set(bb) or any(not _val_eq(aa[k], bb[k]) for k in aa):
        return "choices"
    if "discard" in a and "discard" in b:
        try:
            da, db = choices_to_asg(paths_all, a["discard"]), choices_to_asg(paths_all, b["discard"])
        except ValueError:
            return "discard"
        if set(da) != set(db) or any(not _val_eq(da[k], db[k]) for k in da):
            return "discard"
    return None


def _slice(tree, i):
    return jax.tree_util.tree_map(lambda v: np.asarray(v)[i], tree)


def _run(node, tier, seed):
    def run(ctx):
        comp = component_of(node)
        feats = node.features() & {"zero_length", "mask_concrete_false", "switch_concrete_idx"}
        prog = Prog(node, n_cont=2)
        key = base_key(seed)
        alph = grammar.rotate(node.arg_alphabet(), seed)[:2]
        args = alph[0]
        space = Space(prog, key, alph)
        paths_all = space.paths_all
        jargs = to_jax_args(args)
        cargs = gfi.concrete_args(args)

        def compare(op, tables, f_jit, f_eager, lab):
            for ti, table in enumerate(tables):
                with seam.seam(2):
                    base = seam.run_with(f_jit, table)
                    try:
                        eg = seam.run_with(f_eager, base[1])
                    except Exception as e:
                        ic = "eager_vs_jit" + "".join(":" + f for f in sorted(feats))
                        ctx.fail(comp, op, ic, f"exception:{type(e).__name__}", dict(program=node.name, args=args_key(args), msg=str(e)[:300]))
                        continue
                ctx.ev((node.name, op, lab, ti, "eager"), nontrivial=True)
                d = _obs_equal(base[0], eg[0], paths_all)
                if d:
                    ctx.fail(comp, op, "eager_vs_jit", d, dict(program=node.name, args=args_key(args), outcome=ti, jit=repr(base[0][d] if d in base[0] else None)[:200], eager=repr(eg[0][d] if d in eg[0] else None)[:200]))

        def tables_for(fn):
            with seam.seam(2):
                r = seam.run_with(fn, {})
            tabs = [{}]
            for site, cells, _ in r[2][:1]:
                for alt in cells[1 : 1 + BOUNDS[tier]["alts"]]:
                    tabs.append({site: alt})
            return tabs

        # ---- simulate
        f_j = lambda: space._sim(key, jargs)
        f_e = lambda: space._sim_raw(key, cargs)
        try:
            tabs = tables_for(f_j)
        except Exception as e:
            ctx.ev((node.name, "simulate", "raised"), nontrivial=True)
            ctx.fail(comp, "simulate", "jit", f"exception:{type(e).__name__}", dict(program=node.name, msg=str(e)[:300]))
            return
        compare("simulate", tabs, f_j, f_e, "sim")
        with seam.seam(2):
            st_res = seam.run_with(f_j, {})[0]
        st = space._mk_state(st_res, args, 0, [dict(op="simulate")])
        ret, R = ref_run(node, args, st.asg)
        # the same execution built EAGERLY: a trace that never crossed a jit boundary (dict-valued pytrees
        # are re-ordered by jit), used as the starting point of the eager edits below
        try:
            with seam.seam(2):
                eager_trace = seam.run_with(lambda: prog.gf.simulate(key, cargs), {})
            # run_with converts leaves to numpy; rebuild jnp leaves WITHOUT flattening through jit
            eager_trace = None
            with seam.seam(2):
                seam._S.table, seam._S.visits, seam._S.branches, seam._S.order = {}, {}, [], []
                eager_trace = prog.gf.simulate(key, cargs)
        except Exception:
            eager_trace = None
        # vmap over keys
        keys = jax.random.split(key, 2)
        try:
            with seam.seam(2):
                vf = jax.jit(jax.vmap(lambda k: {k_: v for k_, v in space._sim_raw(k, jargs).items() if k_ != "trace"}))
                b = seam.run_with(lambda: vf(keys), {})
                for i in range(2):
                    u = seam.run_with(lambda: space._sim(keys[i], jargs), b[1])
                    ctx.ev((node.name, "simulate", "vmap_keys", i), nontrivial=True)
                    d = _obs_equal(_slice({k_: v for k_, v in b[0].items()}, i), u[0], paths_all)
                    if d:
                        ctx.fail(comp, "simulate", "vmap_keys", d, dict(program=node.name, args=args_key(args), slice=i))
        except Exception as e:
            ctx.fail(comp, "simulate", "vmap_keys", f"exception:{type(e).__name__}", dict(program=node.name, msg=str(e)[:300]))
        # vmap over arguments (both alphabet entries stacked), when shapes agree
        if len(alph) == 2:
            try:
                a0, a1 = to_jax_args(alph[0]), to_jax_args(alph[1])
                stacked = jax.tree_util.tree_map(lambda x, y: jnp.stack([x, y]), a0, a1)
                with seam.seam(2):
                    vf = jax.jit(jax.vmap(lambda a: {k_: v for k_, v in space._sim_raw(key, a).items() if k_ != "trace"}))
                    b = seam.run_with(lambda: vf(stacked), {})
                    for i, ai in enumerate((a0, a1)):
                        u = seam.run_with(lambda: space._sim(key, ai), b[1])
                        ctx.ev((node.name, "simulate", "vmap_args", i), nontrivial=True)
                        d = _obs_equal(_slice(b[0], i), u[0], paths_all)
                        if d:
                            ctx.fail(comp, "simulate", "vmap_args", d, dict(program=node.name, slice=i))
            except Exception as e:
                ctx.note(f"vmap_args_unsupported_{type(e).__name__}")

        # ---- assess (complete assignment of the simulated state)
        if not _has_clash(st.asg):
            chm = make_chm(st.asg)
            try:
                with seam.seam(2):
                    aj = seam.run_with(lambda: space._assess(chm, jargs), {})[0]
                try:
                    with seam.seam(2):
                        ae = seam.run_with(lambda: space._assess_raw(chm, cargs), {})[0]
                    ctx.ev((node.name, "assess", "eager"), nontrivial=True)
                    if not close(aj["score"], ae["score"]) or not cmp_ret(norm_ret(aj["retval"]), norm_ret(ae["retval"])):
                        ctx.fail(comp, "assess", "eager_vs_jit", "score_or_retval", dict(program=node.name, jit=float(np.asarray(aj["score"])), eager=float(np.asarray(ae["score"]))))
                except Exception as e:
                    ctx.fail(comp, "assess", "eager_vs_jit", f"exception:{type(e).__name__}", dict(program=node.name, msg=str(e)[:300]))
            except Exception:
                ctx.note("assess_raises_in_jit_too")

        # ---- importance / update / regenerate / project on the simulated state
        cons = [{}]
        if R.terms:
            t = R.terms[0]
            av = alt_values(t)
            if av:
                cons.append({t[0]: av[0]})
        for c in cons:
            chm = make_chm(c)
            f_j = lambda: {k_: v for k_, v in space._gen(key, chm, jargs).items() if k_ != "trace"}
            f_e = lambda: {k_: v for k_, v in space._gen_raw(key, chm, cargs).items() if k_ != "trace"}
            try:
                compare("importance", tables_for(f_j)[:2], f_j, f_e, gfi.asg_key(c))
            except Exception as e:
                ctx.note(f"importance_raised_{type(e).__name__}")
            # vmap over constraint values
            if c:
                try:
                    (p_, v_), = c.items()
                    vals = jnp.stack([make_chm({p_: v_}).get_submap(*p_).get_value(), make_chm({p_: st.asg[p_]}).get_submap(*p_).get_value()])
                    with seam.seam(2):
                        vf = jax.jit(jax.vmap(lambda v: {k_: x for k_, x in space._gen_raw(key, ChoiceMap.entry(v, *p_), jargs).items() if k_ != "trace"}))
                        b = seam.run_with(lambda: vf(vals), {})
                        for i in range(2):
                            u = seam.run_with(lambda: {k_: x for k_, x in space._gen(key, ChoiceMap.entry(vals[i], *p_), jargs).items() if k_ != "trace"}, b[1])
                            ctx.ev((node.name, "importance", "vmap_constraint", i), nontrivial=True)
                            d = _obs_equal(_slice(b[0], i), u[0], paths_all)
                            if d:
                                ctx.fail(comp, "importance", "vmap_constraints", d, dict(program=node.name, slice=i, path=repr(p_)))
                except Exception as e:
                    ctx.note(f"vmap_constraints_unsupported_{type(e).__name__}")
            # update
            for tags in ("nochange", "unknown"):
                tag = Diff.no_change if tags == "nochange" else Diff.unknown_change
                req = Update(chm)
                f_j = lambda: {k_: v for k_, v in space._edit(key, st.trace, req, tag(jargs)).items() if k_ in ("score", "weight", "retval", "choices", "discard")}
                e_tr = eager_trace if eager_trace is not None else jax.tree_util.tree_map(jnp.asarray, st.trace)
                f_e = lambda: {k_: v for k_, v in space._edit_raw(key, e_tr, req, tag(cargs)).items() if k_ in ("score", "weight", "retval", "choices", "discard")}
                try:
                    compare("update", tables_for(f_j)[:2], f_j, f_e, gfi.asg_key(c) + tags)
                except (AssertionError, NotImplementedError):
                    ctx.note("update_unsupported")
            # update with a MASKED constraint and changed arguments: eagerly the flag is a Python bool (a False
            # flag is statically the empty map), under jit it is a traced array (the constraint stays a Mask
            # and the distribution takes its lax.cond path) - the two must agree (seeded change C23-c23c-sub3)
            # (programs containing a switch are left out of this comparison: with unknown argument tags a
            # switch re-draws its branch - the recorded C05 finding - and eager/jit then consume randomness
            # differently, so the comparison would not be about the masked constraint)
            if c and len(alph) == 2 and "switch" not in comp:
                ja1, ca1 = to_jax_args(alph[1]), gfi.concrete_args(alph[1])
                for fl in (False, True):
                    req_j = Update(chm.mask(jnp.asarray(fl)))
                    req_e = Update(chm.mask(fl))
                    e_tr = eager_trace if eager_trace is not None else jax.tree_util.tree_map(jnp.asarray, st.trace)
                    keep = ("score", "weight", "retval", "choices")
                    f_j = lambda: {k_: v for k_, v in space._edit(key, st.trace, req_j, Diff.unknown_change(ja1)).items() if k_ in keep}
                    f_e = lambda: {k_: v for k_, v in space._edit_raw(key, e_tr, req_e, Diff.unknown_change(ca1)).items() if k_ in keep}
                    try:
                        compare("update", tables_for(f_j)[:2], f_j, f_e, gfi.asg_key(c) + f"masked_{fl}+argchange")
                    except (AssertionError, NotImplementedError):
                        ctx.note("masked_update_unsupported")
                    except Exception as e:
                        ctx.note(f"masked_update_raised_in_jit_{type(e).__name__}")
        if node.regen_ok:
            for sd in (("all",), ("none",)):
                req = Regenerate(build_selection(sd))
                f_j = lambda: {k_: v for k_, v in space._edit(key, st.trace, req, Diff.no_change(jargs)).items() if k_ in ("score", "weight", "retval", "choices")}
                f_e = lambda: {k_: v for k_, v in space._edit_raw(key, jax.tree_util.tree_map(jnp.asarray, st.trace), req, Diff.no_change(cargs)).items() if k_ in ("score", "weight", "retval", "choices")}
                try:
                    compare("regenerate", tables_for(f_j)[:2], f_j, f_e, sd[0])
                except (AssertionError, NotImplementedError):
                    ctx.note("regenerate_unsupported")
        if node.project_ok:
            for sd in [("all",)] + [("at", a) for a in static_addresses(space.universe)[:2]]:
                sel = build_selection(sd)
                try:
                    pj = float(np.asarray(jax.jit(lambda tr: tr.project(key, sel))(st.trace)))
                    pe = float(np.asarray(jax.tree_util.tree_map(jnp.asarray, st.trace).project(key, sel)))
                    ctx.ev((node.name, "project", repr(sd)), nontrivial=True)
                    if not close(pj, pe):
                        ctx.fail(comp, "project", "eager_vs_jit", "weight", dict(program=node.name, jit=pj, eager=pe, selection=repr(sd)))
                except Exception as e:
                    ctx.fail(comp, "project", "eager_vs_jit", f"exception:{type(e).__name__}", dict(program=node.name, msg=str(e)[:300]))
        ctx.sample(dict(program=node.name, args=args_key(args)))

    return run


def cases(tier, seed):
    for node in grammar.catalog(tier, continuous=True):
        if tier == "quick" and node.depth() >= 2 and (hash_name(node.name) % 15):
            continue
        if tier == "quick" and _n_sites(node) > 6:
            continue
        yield Case(node.name, _run(node, tier, seed), dict(program=node.name))
