"""C37 - DiscreteHMM posterior density and sampler are exact.

Enumerated: every configuration of the bounded alphabet (state count N, transition/observation
truncation, transition/observation variance) x every observation sequence of length T x every
latent sequence (N**T).  The library runs EAGERLY (the configuration keeps jax arrays in static
fields, so it can neither be passed to nor closed over by `jax.jit`); for T >= 2 under
`jax.disable_jit()` (scan/cond as Python loops: a plain eager call re-compiles every scan on every
call, 0.5-2 s per call), cross-checked bit-for-bit against the plain eager mode.

Configurations cover the symmetric regime of the circulant tensors (2k <= N) and, separately, the
non-symmetric ones: k_obs > N/2 (row/column mix-ups of the observation tensor become visible) and
k_trans > N/2 (input class "k_trans>N/2": a transposed transition matrix becomes visible).

Oracle (numpy float64, brute force): the joint table  p(z, x) = pi0[z1] B[z1,x1] prod_t A[z_{t-1},z_t]
B[z_t,x_t]  with A, B the row-softmax of the configuration's transition/observation tensors (the
tensors are the model's parameters and are read from the configuration; the reference recomputes
them from the documented circulant formula as well and both must agree), pi0 = A[N//2] (the chain
starts in the middle state, as in the library's generative model `exact_testbed.markov_chain`).

 (i)   estimate_logpdf(z) == log p(z | x) for all z, and sum_z exp(estimate_logpdf(z)) == 1;
 (ii)  data_logpdf == log sum_z p(z, x);
 (iii) complete probability tree of random_weighted through the seam (`jax.random.categorical`
       is a choice point): sum P(path) == 1, for every z  sum_{paths -> z} P(path) == p(z | x),
       the weight returned on every path == log p(z | x);  if random_weighted cannot run, the
       tree of `forward_filtering_backward_sampling` (the sampler it delegates to) is explored
       instead, so the sampler is still decided;
 (iv)  latent_marginals (module-level helper behind all three public methods) == brute-force
       posterior marginals.
"""

from __future__ import annotations

import itertools
import traceback

import numpy as np

from ..common import Case, close

PROPERTY = "C37"
LEVEL = "exploration"
RULE = (
    "cases = (configuration, observation sequence); each case = all N**T latent sequences for estimate_logpdf, "
    "the complete probability tree of random_weighted (every outcome of every jax.random.categorical draw), "
    "data_logpdf and latent_marginals; distinct = (configuration, observations, operation, latent sequence); "
    "non-trivial = N**T >= 2 latent sequences with distinct posterior mass"
)
ASSUMPTIONS = [
    "the HMM's parameters are the configuration's transition_tensor()/observation_tensor() used as row logits, "
    "initial state N//2 followed by one transition (as in genjax's own exact_testbed model)",
    "jax.random.categorical(key, logits) draws from softmax(logits); distinct split keys are independent",
    "for T >= 2 library calls run under jax.disable_jit() (lax.scan/cond as Python loops, same primitives); "
    "cross-checked bit-for-bit against the ordinary eager mode on the default path of one case per (configuration, N, T)",
    "parameters outside the alphabets (truncation {0,1} plus the non-symmetric regimes k_obs > N/2 and k_trans > N/2 for "
    "N in {3,4}; variance {0.5,1.0}) and N > 4, T > 3 are not covered",
]
BOUNDS = {
    "quick": dict(
        N2="T = 2: 8 configurations (half factorial of truncation x variance alphabets: every triple of parameter values "
           "occurs); T = 1: 2 configurations; all observation sequences",
        N3="T = 2, all 9 observation sequences, 2 symmetric configurations + 1 with k_obs=2 (non-symmetric observation tensor) "
           "+ 1 with k_trans=2 (non-symmetric transition tensor, input class k_trans>N/2)",
        latent="all N**T latent sequences", tree="complete (N**T leaves)",
    ),
    "thorough": dict(
        N2="T in {1,2,3}, all observation sequences, all 16 configurations",
        N3="T in {1,2,3}, all observation sequences (27 for T = 3), all 16 symmetric configurations + k_obs=2 (8 configurations; "
           "4 for T=3) + k_trans=2 (4 configurations for T=2, 2 for T=3)",
        N4="T in {1,2}, all observation sequences, k_obs=3 with k_trans in {0,2} (4 configurations); k_trans=3 (1 configuration, T=2)",
        latent="all N**T latent sequences", tree="complete (N**T leaves)",
    ),
}
JOBS = {"quick": 8, "thorough": 16}

TRUNC = (0, 1)
SIGMA = (0.5, 1.0)


# --------------------------------------------------------------------------------------------
# reference (numpy only)


def ref_circulant(N, k, eps, delta):
    """first column: eps**i for i <= k, eps**(N-i) for N-i <= k (first rule wins), else -delta; entry (i,j) = column[(i-j) mod N].
    Symmetric iff 2k <= N (or eps == 1)."""
    src = []
    for i in range(N):
        if i <= k:
            src.append(eps**i)
        elif N - i <= k:
            src.append(eps ** (N - i))
        else:
            src.append(-delta)
    M = np.zeros((N, N))
    for i in range(N):
        for j in range(N):
            M[i, j] = src[(i - j) % N]
    return M


def _softmax_rows(M):
    M = np.asarray(M, dtype=np.float64)
    e = np.exp(M - M.max(axis=-1, keepdims=True))
    return e / e.sum(axis=-1, keepdims=True)


def ref_joint(tt, ot, obs):
    """dict latent tuple -> p(z, obs)"""
    N = tt.shape[0]
    A = _softmax_rows(tt)
    B = _softmax_rows(ot)
    pi0 = A[N // 2]
    out = {}
    for z in itertools.product(range(N), repeat=len(obs)):
        p = pi0[z[0]] * B[z[0], obs[0]]
        for t in range(1, len(obs)):
            p *= A[z[t - 1], z[t]] * B[z[t], obs[t]]
        out[z] = p
    return out


# --------------------------------------------------------------------------------------------


def _blame(e):
    """innermost function of discrete_hmm.py on the traceback (coarse, stable)"""
    name = "DiscreteHMM"
    for fr in traceback.extract_tb(e.__traceback__):
        if fr.filename.endswith("discrete_hmm.py"):
            name = fr.name
    return name


def _run(N, kt, ko, st, so, obs, seed):
    def run(ctx):
        import jax

        # op-by-op evaluation: lax.scan / lax.cond run as Python loops instead of being re-compiled on
        # every call (the library cannot be jitted, and a plain eager call compiles two scans per call)
        # (a zero-length scan inside TFP's HiddenMarkovModel is not supported in that mode: T = 1 runs plainly)
        with jax.disable_jit(len(obs) >= 2):
            body(ctx)

    def body(ctx):
        import jax
        import jax.numpy as jnp

        from .. import seam
        from ..harness import base_key
        from genjax import DiscreteHMM, DiscreteHMMConfiguration
        from genjax._src.generative_functions.distributions.custom import discrete_hmm as H

        key = base_key(seed)
        cfg = DiscreteHMMConfiguration(jnp.array(N), jnp.array(kt), jnp.array(ko), jnp.array(st), jnp.array(so))
        cfg_key = (N, kt, ko, st, so)
        # 2k <= N: the circulant tensor is symmetric; beyond that it is not (row/column and transpose mix-ups show)
        klass = "k_trans>N/2" if 2 * kt > N else ("k_obs>N/2" if 2 * ko > N else "any")
        T = len(obs)
        jobs = jnp.array(obs, dtype=jnp.int32)
        tt = np.asarray(cfg.transition_tensor(), dtype=np.float64)
        ot = np.asarray(cfg.observation_tensor(), dtype=np.float64)
        ctx.ev((cfg_key, "tensors"), nontrivial=False)
        if not (close(tt, ref_circulant(N, kt, st, 1.0 / st)) and close(ot, ref_circulant(N, ko, so, 1.0 / so))):
            ctx.fail("DiscreteHMMConfiguration", "tensors", klass, "tensor", dict(cfg=cfg_key, tt=tt, ot=ot))
        joint = ref_joint(tt, ot, obs)
        Z = sum(joint.values())
        post = {z: p / Z for z, p in joint.items()}
        latents = sorted(post)
        nontriv = len(latents) >= 2 and (max(post.values()) - min(post.values())) > 1e-6
        detail0 = dict(config=dict(N=N, trunc_trans=kt, trunc_obs=ko, sigma_trans=st, sigma_obs=so), obs=list(obs))
        ctx.sample(dict(**detail0, posterior={"".join(map(str, z)): round(p, 6) for z, p in list(post.items())[:9]},
                        log_marginal=float(np.log(Z))))

        # (i) estimate_logpdf on every latent sequence
        est = {}
        for z in latents:
            ctx.ev((cfg_key, obs, "estimate_logpdf", z), nontrivial=nontriv)
            try:
                v = DiscreteHMM.estimate_logpdf(key, jnp.array(z, dtype=jnp.int32), cfg, jobs)
                v = np.asarray(v, dtype=np.float64)
            except Exception as e:
                ctx.fail(_blame(e), "estimate_logpdf", klass, f"exception:{type(e).__name__}",
                         dict(**detail0, latent=list(z), error=str(e)[:300]))
                break
            if v.shape != () or not close(v, np.log(post[z])):
                ctx.fail("latent_sequence_posterior", "estimate_logpdf", klass, "logpdf",
                         dict(**detail0, latent=list(z), expected=float(np.log(post[z])), actual=v))
            else:
                est[z] = float(v)
        if len(est) == len(latents):
            ctx.ev((cfg_key, obs, "normalisation"), nontrivial=nontriv)
            tot = float(sum(np.exp(v) for v in est.values()))
            ctx.note("normalisation_checks")
            if not close(tot, 1.0):
                ctx.fail("latent_sequence_posterior", "estimate_logpdf", klass, "normalisation", dict(**detail0, total=tot))

        # (ii) data_logpdf
        ctx.ev((cfg_key, obs, "data_logpdf"), nontrivial=True)
        try:
            d = np.asarray(DiscreteHMM.data_logpdf(cfg, jobs), dtype=np.float64)
            if d.shape != () or not close(d, np.log(Z)):
                ctx.fail("log_data_marginal", "data_logpdf", klass, "logpdf",
                         dict(**detail0, expected=float(np.log(Z)), actual=d))
        except Exception as e:
            ctx.fail(_blame(e), "data_logpdf", klass, f"exception:{type(e).__name__}", dict(**detail0, error=str(e)[:300]))

        # (iii) complete tree of random_weighted (fallback: the sampler it delegates to)
        def rw():
            w, v = DiscreteHMM.random_weighted(key, cfg, jobs)
            return dict(w=w, v=v)

        def ffbs():
            _, (v, _) = H.forward_filtering_backward_sampling(key, cfg, jobs)
            return dict(v=v)

        with seam.seam():
            op = "random_weighted"
            paths = None
            try:
                paths, stats = seam.explore(rw, max_paths=4096)
            except seam.TreeCapped as e:
                ctx.cap(str(e))
            except Exception as e:
                ctx.ev((cfg_key, obs, "random_weighted", "raised"), nontrivial=False)
                ctx.fail(_blame(e), "random_weighted", klass, f"exception:{type(e).__name__}", dict(**detail0, error=str(e)[:300]))
                op = "ffbs"
                try:
                    paths, stats = seam.explore(ffbs, max_paths=4096)
                except Exception as e2:
                    ctx.fail(_blame(e2), "ffbs", klass, f"exception:{type(e2).__name__}", dict(**detail0, error=str(e2)[:300]))
            # the op-by-op mode must agree bit-for-bit with the ordinary eager mode (default path)
            if paths is not None and T >= 2 and all(o == 0 for o in obs):
                fn = rw if op == "random_weighted" else ffbs
                with jax.disable_jit(False):
                    r_plain = seam.run_with(fn, {})[0]
                r_obo = seam.run_with(fn, {})[0]
                ctx.ev((cfg_key, obs, op, "eager_vs_op_by_op"), nontrivial=False)
                same = all(np.array_equal(np.asarray(r_plain[k]), np.asarray(r_obo[k])) for k in r_plain)
                if not same:
                    ctx.fail("harness", op, "eager_vs_op_by_op", "mode_dependent", dict(**detail0, plain=r_plain, op_by_op=r_obo))
                ctx.note("mode_crosschecks")
        if paths is not None:
            ctx.note("trees")
            ctx.note("paths", len(paths))
            ctx.note(f"trees_{op}")
            tot = seam.total_prob(paths)
            if abs(tot - 1.0) > 1e-6:
                ctx.fail("forward_filtering_backward_sampling", op, "tree", "sum_prob", dict(**detail0, total=tot))
            else:
                ctx.note("sum_prob_checks")
            mass = {}
            for p in paths:
                v = np.asarray(p.result["v"])
                z = tuple(int(i) for i in v.reshape(-1))
                ctx.ev((cfg_key, obs, op, z), nontrivial=p.n_branch > 0)
                ctx.outcome((N, T, z))
                if v.shape != (T,) or not np.issubdtype(v.dtype, np.integer) or z not in post:
                    ctx.fail("forward_filtering_backward_sampling", op, klass, "sample_support", dict(**detail0, sample=v))
                    continue
                mass[z] = mass.get(z, 0.0) + p.prob
                if op == "random_weighted":
                    w = np.asarray(p.result["w"], dtype=np.float64)
                    if w.shape != () or not close(w, np.log(post[z])):
                        ctx.fail("DiscreteHMM.random_weighted", op, klass, "weight",
                                 dict(**detail0, latent=list(z), expected=float(np.log(post[z])), actual=w))
            for z in latents:
                ctx.ev((cfg_key, obs, op, "mass", z), nontrivial=nontriv)
                if abs(mass.get(z, 0.0) - post[z]) > 1e-5:
                    ctx.fail("forward_filtering_backward_sampling", op, klass, "sample_distribution",
                             dict(**detail0, latent=list(z), expected=post[z], actual=mass.get(z, 0.0)))

        # (iv) latent_marginals
        ctx.ev((cfg_key, obs, "latent_marginals"), nontrivial=True)
        try:
            _, marg = H.latent_marginals(cfg, jobs)
            probs = np.asarray(marg.probs_parameter(), dtype=np.float64)
            ref = np.zeros((T, N))
            for z, p in post.items():
                for t in range(T):
                    ref[t, z[t]] += p
            if probs.shape != ref.shape or not np.allclose(probs, ref, atol=1e-5):
                ctx.fail("latent_marginals", "latent_marginals", klass, "marginals", dict(**detail0, expected=ref, actual=probs))
        except Exception as e:
            ctx.fail(_blame(e), "latent_marginals", klass, f"exception:{type(e).__name__}", dict(**detail0, error=str(e)[:300]))

    return run


def _half(seed, configs):
    """half factorial of four binary factors: parity fixed -> every triple of values occurs"""
    par = seed % 2
    return [c for c in configs if (TRUNC.index(c[0]) + TRUNC.index(c[1]) + SIGMA.index(c[2]) + SIGMA.index(c[3])) % 2 == par]


def _plan(tier, seed):
    """[(N, T, configurations)];  configuration = (k_trans, k_obs, sigma_trans, sigma_obs)"""
    allc = list(itertools.product(TRUNC, TRUNC, SIGMA, SIGMA))
    half = _half(seed, allc)
    alt = SIGMA[seed % 2]
    if tier == "quick":
        # symmetric regime: three configurations for N=3 in which both values of every parameter occur
        triples = [t for t in itertools.combinations(half, 3) if all(len({c[i] for c in t}) == 2 for i in range(4))]
        n3 = list(triples[(seed // 2) % len(triples)])
        asym_obs = [(seed % 2, 2, alt, 0.5)]  # 2*k_obs > N: non-symmetric observation tensor
        asym_trans = [(2, (seed // 2) % 2, 0.5, alt)]  # 2*k_trans > N: non-symmetric transition tensor
        return [(3, 2, n3[:2] + asym_obs + asym_trans), (2, 2, half), (2, 1, n3[:2])]
    asym_obs3 = [(kt, 2, st, so) for kt in TRUNC for st in SIGMA for so in SIGMA]
    asym_trans3 = [(2, ko, 0.5, so) for ko in (0, 2) for so in SIGMA]
    asym_obs4 = [(kt, 3, st, 0.5) for kt in (0, 2) for st in SIGMA]
    asym_trans4 = [(3, 1, 0.5, 0.5)]
    return [
        (3, 3, allc + [c for c in asym_obs3 if c[3] == 0.5] + asym_trans3[:2]),
        (4, 2, asym_obs4 + asym_trans4),
        (2, 3, allc), (3, 2, allc + asym_obs3 + asym_trans3), (2, 2, allc),
        (3, 1, allc + asym_obs3), (4, 1, asym_obs4), (2, 1, allc),
    ]


def cases(tier, seed):
    for N, T, cfgs in _plan(tier, seed):
        for kt, ko, st, so in cfgs:
            for obs in itertools.product(range(N), repeat=T):
                cid = f"N{N}-kt{kt}-ko{ko}-st{st}-so{so}-obs{''.join(map(str, obs))}"
                yield Case(cid, _run(N, kt, ko, st, so, obs, seed),
                           dict(N=N, T=T, trunc_trans=kt, trunc_obs=ko, sigma_trans=st, sigma_obs=so, obs=list(obs)))
