"""C22 - Static language traces exactly the visited addresses, once each.

Enumerated: ALL static programs with 1..3 traced sites whose addresses are drawn (with repetition) from
{a, b, ("a","b"), ("u","v"), ("u","w")} - this includes duplicated addresses, tuple addresses sharing a
prefix, and a leaf address that is a prefix of a tuple address - each site a flip whose parameter
depends on the previous sites; plus nested static calls under a tuple address.  Operations (eager, as the
property is about tracing): simulate along every path of the probability tree, and assess with EVERY
partial choice map (every subset of the visited addresses).  Oracle: the trace's choice map contains
exactly the visited addresses (tuple addresses nested hierarchically, nothing else); a duplicated
address raises AddressReuse; assess succeeds (== reference) iff every visited address has a value
and raises MissingAddress otherwise.

Call sites whose callee is a COMBINATOR (added after seeded change C22-c22c-sub3, which restricted the
MissingAddress check to bare distributions): y ~ flip; v ~ <combinator over a bare distribution>(...);
z ~ flip for every combinator with something always visited under v; assess with the values of every
subset of the three call sites.  Oracle: MissingAddress (no other exception, no result) whenever a
whole call site is absent; the reference score for the complete map (combinators without an assess
finding only)."""

from __future__ import annotations

import itertools

import jax
import jax.numpy as jnp
import numpy as np

import genjax
from genjax._src.generative_functions.static import AddressReuse, MissingAddress

from ..common import Case, close
from .. import gfi, grammar, seam
from ..grammar import Flip, Site, Static, mixp, num, one, ref_run, _f
from ..harness import Prog, args_key, base_key, choices_to_asg, lookup, make_chm, probes_for, read_choices, to_jax_args

PROPERTY = "C22"
LEVEL = "exploration"
RULE = (
    "all address sequences of length 1..3 over {a, b, (a,b), (u,v), (u,w)} (+ nested calls) x every path of the "
    "simulate tree x every subset of the visited addresses as assess input; distinct = (program, op, assignment or "
    "subset); non-trivial = program with >= 2 sites or a tuple address"
)
ASSUMPTIONS = [
    "a leaf address that is also a prefix of a tuple address (value and sub-map at one address) is documented as unsupported by choice maps: such programs are only required to fail loudly or trace consistently, and are counted separately",
    "run eagerly (a static function mixing str and tuple addresses cannot be jitted: known finding)",
]
BOUNDS = {"quick": dict(max_sites=2, plus="all length-3 sequences with a duplicate or a tuple address"), "thorough": dict(max_sites=3)}
JOBS = {"quick": 12, "thorough": 16}

POOL = ["a", "b", ("a", "b"), ("u", "v"), ("u", "w")]


def at(a):
    return a if isinstance(a, tuple) else (a,)


def clash(addrs):
    """value and sub-map at the same address"""
    ts = [at(a) for a in addrs]
    for x in ts:
        for y in ts:
            if len(x) < len(y) and y[: len(x)] == x:
                return True
    return False


def mk_program(addrs, nested=False):
    sites = []
    for i, a in enumerate(addrs):
        if i == 0:
            argfn = lambda xp, args, env: (args[0],)
        else:
            prev = addrs[i - 1]
            argfn = (lambda prev: lambda xp, args, env: (mixp(xp, num(xp, env[prev]), args[0]),))(prev)
        sub = "flip"
        if nested and i == len(addrs) - 1:
            sub = one(Flip(), "n")
        sites.append(Site(a, sub, argfn))
    last = addrs[-1]
    name = "static[" + ",".join(repr(a) for a in addrs) + ("" if not nested else ";nested") + "]"
    return Static(name, 1, sites, lambda xp, args, env: num(xp, env[last]), [(0.3,), (0.6,)])


def programs(tier):
    out = []
    for n in (1, 2, 3):
        for addrs in itertools.product(POOL, repeat=n):
            if tier == "quick" and n == 3:
                dup = len(set(addrs)) < 3
                tup = sum(isinstance(a, tuple) for a in addrs) >= 2
                if not (dup or tup) or (hash(repr(addrs)) % 3 and not dup):
                    continue
            out.append((mk_program(list(addrs)), list(addrs), False))
    for addrs in ([("u", "v")], ["a", ("u", "v")], [("u", "v"), ("u", "w")]):
        out.append((mk_program(list(addrs), nested=True), list(addrs), True))
    # de-duplicate names (hash-based thinning above is deterministic because PYTHONHASHSEED=0)
    seen, res = set(), []
    for p in out:
        if p[0].name not in seen:
            seen.add(p[0].name)
            res.append(p)
    return res


def _run(node, addrs, nested, tier, seed):
    def run(ctx):
        key = base_key(seed)
        args = node.arg_alphabet()[seed % 2]
        jargs = to_jax_args(args)
        dup = len(set(addrs)) < len(addrs)
        cl = clash(addrs) and not dup
        mixed = any(isinstance(a, tuple) for a in addrs) and any(isinstance(a, str) for a in addrs)
        cls = "duplicate" if dup else ("value_and_submap_clash" if cl else ("tuple" if any(isinstance(a, tuple) for a in addrs) else "plain"))
        nontriv = len(addrs) >= 2 or any(isinstance(a, tuple) for a in addrs)
        gf = node.gf()
        if dup:
            ctx.ev((node.name, "simulate"), nontrivial=True)
            for opname, op in (("simulate", lambda: gf.simulate(key, jargs)), ("importance", lambda: gf.importance(key, genjax.ChoiceMap.empty(), jargs))):
                try:
                    with seam.seam(2):
                        seam.run_with(op, {})
                    ctx.fail("static", opname, cls, "no_AddressReuse", dict(program=node.name))
                except AddressReuse:
                    ctx.note("address_reuse_raised")
                except Exception as e:
                    ctx.fail("static", opname, cls, f"exception:{type(e).__name__}", dict(program=node.name, msg=str(e)[:200]))
            return
        if cl:
            # unsupported by choice maps: must not silently produce a wrong map
            ctx.ev((node.name, "simulate"), nontrivial=True)
            try:
                with seam.seam(2):
                    res = seam.run_with(lambda: gf.simulate(key, jargs), {})[0]
                chm = res.get_choices()
                ctx.note("clash_program_traced")
            except Exception as e:
                ctx.note(f"clash_program_raised_{type(e).__name__}")
            return
        # reference universe
        enum = grammar.ref_enumerate(node, args)
        uni = sorted({p for asg, _, R in enum for p in R.visited()}, key=repr)
        probes = probes_for(uni)
        paths_all = list(uni) + list(probes)

        def sim():
            tr = gf.simulate(key, jargs)
            return dict(score=tr.get_score(), retval=tr.get_retval(), choices=read_choices(tr.get_choices(), paths_all))

        with seam.seam(2):
            paths, _ = seam.explore(sim, max_paths=64)
        for p in paths:
            asg = choices_to_asg(paths_all, p.result["choices"])
            ctx.ev((node.name, "simulate", gfi.asg_key(asg)), nontrivial=nontriv)
            try:
                ret, R = ref_run(node, args, asg)
            except grammar.Missing as m:
                ctx.fail("static", "simulate", cls, "choices:missing_address", dict(program=node.name, missing=repr(m.path), got=gfi.asg_key(asg)))
                continue
            if set(asg) != set(R.visited()):
                ctx.fail("static", "simulate", cls, "choices:extra_address", dict(program=node.name, extra=sorted(map(repr, set(asg) - set(R.visited())))))
            if not close(p.result["score"], R.score()):
                ctx.fail("static", "simulate", cls, "score", dict(program=node.name, impl=float(p.result["score"]), ref=R.score()))
        # assess with every subset of the visited addresses
        asg, ret, R = enum[0]
        visited = list(R.visited())
        for r in range(len(visited) + 1):
            for S in itertools.combinations(visited, r):
                sub = {p_: asg[p_] for p_ in S}
                ctx.ev((node.name, "assess", gfi.asg_key(sub)), nontrivial=nontriv)
                complete = len(S) == len(visited)
                try:
                    s, rv = gf.assess(make_chm(sub), jargs)
                    if not complete:
                        ctx.fail("static", "assess", cls, "no_MissingAddress", dict(program=node.name, given=gfi.asg_key(sub), visited=[repr(v) for v in visited]))
                    elif not close(float(s), R.score()):
                        ctx.fail("static", "assess", cls, "score", dict(program=node.name, impl=float(s), ref=R.score()))
                except MissingAddress as e:
                    if complete:
                        ctx.fail("static", "assess", cls, "MissingAddress_on_complete_map", dict(program=node.name, given=gfi.asg_key(sub), msg=str(e)[:100]))
                except Exception as e:
                    ctx.fail("static", "assess", cls, f"exception:{type(e).__name__}", dict(program=node.name, given=gfi.asg_key(sub), msg=str(e)[:200]))
        if mixed:
            # jit of a function mixing str and tuple addresses (known finding)
            ctx.ev((node.name, "jit_simulate"), nontrivial=True)
            try:
                with seam.seam(2):
                    jf = jax.jit(lambda k: gf.simulate(k, jargs))
                    seam.run_with(lambda: jf(key), {})
            except ValueError as e:
                ctx.fail("static", "jit_simulate", "static_str_and_tuple", "exception:ValueError", dict(program=node.name, msg=str(e)[:120]))
        ctx.sample(dict(program=node.name, visited=[repr(v) for v in visited], paths=len(paths)))

    return run


CALL_SITE_KINDS = ("vmap", "repeat", "scan", "switch", "mask", "dimap", "or_else", "mix", "iterate", "iterate_final", "accumulate", "reduce")
SCORE_KINDS = ("vmap", "repeat", "scan", "dimap", "iterate", "iterate_final", "accumulate", "reduce")


def call_site_programs():
    return [(grammar.leaf_then_vec(raw), raw) for raw in grammar.raw_over(Flip()) if raw.kind in CALL_SITE_KINDS]


def _run_call_site(node, raw, tier, seed):
    def run(ctx):
        args = node.arg_alphabet()[0]  # theta = 0.3: the mask flag (theta < 0.5) is True, so v is visited
        jargs = to_jax_args(args)
        gf = node.gf()
        enum = grammar.ref_enumerate(node, args)
        order = ["y", "v", "z"]
        for asg, ret, R in enum[: (2 if tier == "quick" else 6)]:
            visited = list(R.visited())
            tops = {p_[0] for p_ in visited}
            if tops != set(order):
                raise RuntimeError(f"{node.name}: call sites visited {sorted(tops)}")
            for r in range(len(order) + 1):
                for T in itertools.combinations(order, r):
                    if "v" in T and raw.kind not in SCORE_KINDS:
                        # switch / mask / or_else / mix assess on maps that do contain v: their own assess
                        # findings (values required for branches not taken / masked-off) belong to C02
                        continue
                    sub = {p_: asg[p_] for p_ in visited if p_[0] in T}
                    ctx.ev((node.name, "assess", gfi.asg_key(sub)), nontrivial=True)
                    complete = len(T) == len(order)
                    cls = f"call_site:{raw.kind}"
                    try:
                        s, rv = gf.assess(make_chm(sub), jargs)
                        if not complete:
                            ctx.fail("static", "assess", cls, "no_MissingAddress", dict(program=node.name, given=sorted(T)))
                        elif raw.kind in SCORE_KINDS and not close(float(s), R.score()):
                            ctx.fail("static", "assess", cls, "score", dict(program=node.name, impl=float(s), ref=R.score()))
                        ctx.outcome(("assess_ok", complete))
                    except MissingAddress as e:
                        ctx.outcome(("MissingAddress", complete))
                        first_missing = [a for a in order if a not in T]
                        if complete:
                            ctx.fail("static", "assess", cls, "MissingAddress_on_complete_map", dict(program=node.name, msg=str(e)[:100]))
                        elif first_missing[0] not in str(e):
                            ctx.fail("static", "assess", cls, "MissingAddress_names_wrong_address", dict(program=node.name, given=sorted(T), msg=str(e)[:100]))
                    except Exception as e:
                        ctx.fail("static", "assess", cls, f"exception:{type(e).__name__}", dict(program=node.name, given=sorted(T), msg=str(e)[:200]))
        ctx.sample(dict(program=node.name, call_site=raw.kind, assignments=len(enum)))

    return run


def cases(tier, seed):
    for node, raw in call_site_programs():
        yield Case(node.name, _run_call_site(node, raw, tier, seed), dict(program=node.name, call_site=raw.kind))
    for node, addrs, nested in programs(tier):
        yield Case(node.name, _run(node, addrs, nested, tier, seed), dict(program=node.name, addresses=[repr(a) for a in addrs]))
