"""C25 - Marginal is an unbiased density sampler for the selected choices.

Enumerated: hand-written finite-discrete programs x selection alphabet (all / every single address /
every pair / explicit union of all) x algorithm in {None, Importance, ImportanceK(2)} x argument
alphabet.  For each combination the COMPLETE probability tree (randomness seam) of
`Marginal.random_weighted(key, *args)` and, for every sample s of the selected addresses, of
`Marginal.estimate_logpdf(key, s, *args)`.

Oracles (reference = brute-force joint table in numpy float64, mc/infref.Net):
 (i)   sum P(path) == 1;
 (ii)  the returned choice map holds exactly the selected addresses;
 (iii) sum_{paths->s} P(path) == p_ref(s)            (the sample is the marginal of the program);
 (iv)  sum_{paths->s} P(path) exp(-w) / sum_{paths->s} P(path) == 1 / p_ref(s);
 (v)   if no selected site is influenced by an unselected one: w == log p_ref(s) on every path and
       estimate_logpdf(key, s, *args) == log p_ref(s) on every path of its own tree;
 (vi)  E[exp(estimate_logpdf(key, s, *args))] == p_ref(s).
"""

from __future__ import annotations

import itertools
import math

import jax
import jax.numpy as jnp
import numpy as np

import genjax
from genjax import ChoiceMap, Selection, Target
from genjax import SelectionBuilder as S
from genjax.inference.smc import Importance, ImportanceK

from .. import seam
from ..common import Case, close
from ..harness import base_key
from ..infref import FLIP, Net, blame, cat, decode, read, vkey

PROPERTY = "C25"
LEVEL = "model_checking"
RULE = (
    "cases = program x algorithm x selection; each case = complete probability trees of Marginal.random_weighted "
    "(all outcomes of every sampling site incl. the algorithm's particles and resampling) and of estimate_logpdf for "
    "every selected-value tuple; distinct = (program, selection, algorithm, args, leaf); non-trivial = leaf reached "
    "through >= 1 branch point.  Collision inputs: selection whose complement is an ancestor of the selected site "
    "(chain/b, fork/b, collider/c), selection = everything (weight must be the joint density, not 0), "
    "selection closed under parents (weight must be exact on every path)."
)
ASSUMPTIONS = [
    "TFP single-site samplers are correct for the parameters they receive; distinct keys are independent, equal keys comonotone",
    "finite-discrete programs only (flip / categorical sites, <= 3 sites); argument alphabet of 1-2 values",
    "an SMC algorithm object needs an initial Target: Importance/ImportanceK are built on Target(gen_fn, args, "
    "placeholder values at the selected addresses) (same address structure as the target Marginal builds); "
    "Marginal re-targets it through ChangeTarget",
]
BOUNDS = {
    "quick": dict(programs=5, selections="algorithm none: all, all-explicit, singles, pairs; with algorithm: all, first, last, first+last", algorithms=["none", "Importance", "ImportanceK(2)"], args=1, max_paths=4096),
    "thorough": dict(programs=6, selections="all, all-explicit, singles, pairs", algorithms=["none", "Importance", "ImportanceK(2)", "ImportanceK(3)"], args=2, max_paths=16384),
}
JOBS = {"quick": 8, "thorough": 16}


# ---------------------------------------------------------------------------------------------
# programs (real) and their references (independent transcription)


@genjax.gen
def g_indep(p):
    a = genjax.flip(p) @ "a"
    b = genjax.flip(0.7) @ "b"
    c = genjax.categorical(probs=jnp.array([0.2, 0.5, 0.3])) @ "c"
    return a


r_indep = Net(
    "indep",
    [
        ("a", FLIP, lambda e, args: [args[0], 1 - args[0]]),
        ("b", FLIP, lambda e, args: [0.7, 0.3]),
        ("c", cat(3), lambda e, args: [0.2, 0.5, 0.3]),
    ],
)


@genjax.gen
def g_chain(params):
    (p,) = params
    a = genjax.flip(p) @ "a"
    b = genjax.flip(jnp.where(a, 0.8, 0.25)) @ "b"
    return b


r_chain = Net(
    "chain",
    [
        ("a", FLIP, lambda e, args: [args[0][0], 1 - args[0][0]]),
        ("b", FLIP, lambda e, args: [0.8, 0.2] if e["a"] else [0.25, 0.75]),
    ],
)


@genjax.gen
def g_fork():
    a = genjax.flip(0.3) @ "a"
    b = genjax.flip(jnp.where(a, 0.9, 0.35)) @ "b"
    c = genjax.categorical(probs=jnp.where(a, jnp.array([0.6, 0.3, 0.1]), jnp.array([0.1, 0.2, 0.7]))) @ "c"
    return b, c


r_fork = Net(
    "fork",
    [
        ("a", FLIP, lambda e, args: [0.3, 0.7]),
        ("b", FLIP, lambda e, args: [0.9, 0.1] if e["a"] else [0.35, 0.65]),
        ("c", cat(3), lambda e, args: [0.6, 0.3, 0.1] if e["a"] else [0.1, 0.2, 0.7]),
    ],
)


@genjax.gen
def g_collider(params):
    p, pb = params
    a = genjax.flip(p) @ "a"
    b = genjax.flip(pb) @ "b"
    table = jnp.array([[0.15, 0.5], [0.7, 0.95]])
    c = genjax.flip(table[a.astype(int), b.astype(int)]) @ "c"
    return c


_COLL = [[0.15, 0.5], [0.7, 0.95]]
r_collider = Net(
    "collider",
    [
        ("a", FLIP, lambda e, args: [args[0][0], 1 - args[0][0]]),
        ("b", FLIP, lambda e, args: [args[0][1], 1 - args[0][1]]),
        ("c", FLIP, lambda e, args: [_COLL[int(e["a"])][int(e["b"])], 1 - _COLL[int(e["a"])][int(e["b"])]]),
    ],
)


@genjax.gen
def g_chain3(params):
    (p,) = params
    a = genjax.categorical(probs=jnp.array([p, 0.5 - p, 0.5])) @ "a"
    b = genjax.flip(jnp.array([0.2, 0.5, 0.85])[a]) @ "b"
    c = genjax.flip(jnp.where(b, 0.3, 0.75)) @ "c"
    return c


r_chain3 = Net(
    "chain3",
    [
        ("a", cat(3), lambda e, args: [args[0][0], 0.5 - args[0][0], 0.5]),
        ("b", FLIP, lambda e, args: [[0.2, 0.5, 0.85][e["a"]], 1 - [0.2, 0.5, 0.85][e["a"]]]),
        ("c", FLIP, lambda e, args: [0.3, 0.7] if e["b"] else [0.75, 0.25]),
    ],
)


@genjax.gen
def g_diamond(p):
    a = genjax.flip(p) @ "a"
    b = genjax.flip(jnp.where(a, 0.8, 0.3)) @ "b"
    c = genjax.flip(jnp.where(a, 0.45, 0.65)) @ "c"
    d = genjax.flip(jnp.where(b & c, 0.9, jnp.where(b | c, 0.5, 0.2))) @ "d"
    return d


def _dia_d(e, args):
    p = 0.9 if (e["b"] and e["c"]) else (0.5 if (e["b"] or e["c"]) else 0.2)
    return [p, 1 - p]


r_diamond = Net(
    "diamond",
    [
        ("a", FLIP, lambda e, args: [args[0], 1 - args[0]]),
        ("b", FLIP, lambda e, args: [0.8, 0.2] if e["a"] else [0.3, 0.7]),
        ("c", FLIP, lambda e, args: [0.45, 0.55] if e["a"] else [0.65, 0.35]),
        ("d", FLIP, _dia_d),
    ],
)

# (program, reference, argument alphabet); argument kinds: scalar / tuple-valued / none
PROGRAMS = {
    "indep": (g_indep, r_indep, [(0.3,), (0.45,)]),
    "chain": (g_chain, r_chain, [((0.3,),), ((0.45,),)]),
    "fork": (g_fork, r_fork, [()]),
    "collider": (g_collider, r_collider, [((0.3, 0.6),), ((0.45, 0.2),)]),
    "chain3": (g_chain3, r_chain3, [((0.3,),), ((0.15,),)]),
    "diamond": (g_diamond, r_diamond, [(0.3,), (0.45,)]),
}
QUICK_PROGRAMS = ["indep", "chain", "fork", "collider", "chain3"]


def selections(net: Net, tier):
    """(name, addrs, build) - build() returns the real Selection"""
    addrs = net.addrs
    out = [("all", tuple(addrs), lambda: Selection.all())]

    def union(names):
        def b():
            s = S[names[0]]
            for n in names[1:]:
                s = s | S[n]
            return s

        return b

    for a in addrs:
        out.append((a, (a,), union((a,))))
    if len(addrs) >= 3:
        for pair in itertools.combinations(addrs, 2):
            out.append(("+".join(pair), pair, union(pair)))
    if len(addrs) >= 4 and tier == "thorough":
        for tri in itertools.combinations(addrs, 3):
            out.append(("+".join(tri), tri, union(tri)))
    out.append(("all-explicit", tuple(addrs), union(tuple(addrs))))
    return out


ALGS = {"quick": ["none", "Importance", "ImportanceK2"], "thorough": ["none", "Importance", "ImportanceK2", "ImportanceK3"]}


def _plain(msg):
    import re

    return re.sub(r"\x1b\[[0-9;]*m", "", msg)


def _val(v):
    if isinstance(v, bool):
        return jnp.asarray(v)
    return jnp.asarray(v, dtype=jnp.int32)


def _chm(addrs, vals):
    c = ChoiceMap.empty()
    for a, v in zip(addrs, vals):
        c = c | ChoiceMap.entry(v, a)
    return c


def _build_marginal(gf, sel, algname, sel_addrs, args, s0):
    """inside jit: args / s0 are traced values"""
    if algname == "none":
        alg = None
    else:
        t0 = Target(gf, args, _chm(sel_addrs, s0))
        if algname == "Importance":
            alg = Importance(t0)
        else:
            alg = ImportanceK(t0, k_particles=int(algname[-1]))
    return gf.marginal(selection=sel, algorithm=alg)


def _selclass(net, sel_addrs, closed):
    if len(sel_addrs) == len(net.addrs):
        return "all"
    return "partial-closed" if closed else "partial-influenced"


def _run(pname, algname, selname, tier, seed):
    def run(ctx):
        gf, net, arg_alphabet = PROGRAMS[pname]
        r = seed % len(arg_alphabet)
        arg_alphabet = (arg_alphabet[r:] + arg_alphabet[:r])[: BOUNDS[tier]["args"]]
        sel_name, sel_addrs, build = next(s for s in selections(net, tier) if s[0] == selname)
        sel = build()
        key = base_key(seed)
        max_paths = BOUNDS[tier]["max_paths"]
        closed = net.parents_closed(sel_addrs, arg_alphabet)
        icls = f"algorithm={'none' if algname == 'none' else algname.rstrip('0123456789')};selection={_selclass(net, sel_addrs, closed)}"
        # exactness clause (v).  With an SMC algorithm the proposal of the unselected choices is the
        # internal proposal of the algorithm's *initial* target (placeholder values), so exactness is
        # only demanded when the placeholder cannot matter: the selected choices do not influence the
        # unselected ones either.
        rest = [a for a in net.addrs if a not in sel_addrs]
        exact = closed and (algname == "none" or net.parents_closed(rest, arg_alphabet))
        alladdrs = net.addrs + ["zz"]
        # placeholder values of the algorithm's initial target (rotated by the seed; no verdict depends on it)
        s0 = tuple(net.values[a][seed % len(net.values[a])] for a in sel_addrs)

        def f_rw(key, args, s0):
            m = _build_marginal(gf, sel, algname, sel_addrs, args, s0)
            w, chm = m.random_weighted(key, *args)
            return dict(w=w, choices=read(chm, alladdrs))

        def f_el(key, args, s0, v):
            m = _build_marginal(gf, sel, algname, sel_addrs, args, s0)
            return m.estimate_logpdf(key, _chm(sel_addrs, v), *args)

        ident = dict(program=pname, selection=sel_name, algorithm=algname)
        with seam.seam():
            j_rw = jax.jit(f_rw)
            j_el = jax.jit(f_el)
            for args in arg_alphabet:
                jargs = jax.tree_util.tree_map(jnp.float32, args)
                js0 = tuple(_val(v) for v in s0)
                pref = net.marginal(sel_addrs, args)
                idn = dict(ident, args=list(args), placeholder=list(s0))
                # ---------------- random_weighted
                try:
                    paths, stats = seam.explore(lambda: j_rw(key, jargs, js0), max_paths=max_paths)
                except seam.TreeCapped as e:
                    ctx.cap(f"random_weighted {args}: {e}")
                    ctx.ev((pname, selname, algname, args, "rw-capped"), nontrivial=False)
                    continue
                except Exception as e:  # the library raising here is a violation (all inputs are in the documented domain)
                    ctx.ev((pname, selname, algname, args, "rw-exc"), nontrivial=True)
                    ctx.fail(blame(e, "Marginal.random_weighted"), "random_weighted", icls.split(";")[0], f"exception:{type(e).__name__}", dict(idn, msg=_plain(str(e))[:400]))
                    continue
                ctx.note("trees")
                ctx.note("paths", len(paths))
                ctx.transition(len(paths) + stats["branch_points"])
                tot = seam.total_prob(paths)
                if abs(tot - 1.0) > 1e-6:
                    ctx.fail("Marginal.random_weighted", "random_weighted", icls, "sum_prob", dict(idn, total=tot))
                mass, inv, bad_addr, bad_exact = {}, {}, [], []
                for i, p in enumerate(paths):
                    got = decode(alladdrs, p.result["choices"])
                    w = float(p.result["w"])
                    k = (pname, selname, algname, args, vkey(got), round(w, 4), i)
                    ctx.ev(k, nontrivial=p.n_branch > 0)
                    ctx.state((pname, selname, algname, args, vkey(got), round(w, 4)))
                    ctx.outcome((vkey(got), round(w, 4)))
                    if set(got) != set(sel_addrs):
                        bad_addr.append(dict(returned=sorted(got), expected=sorted(sel_addrs)))
                        continue
                    s = tuple(got[a] for a in sel_addrs)
                    mass[s] = mass.get(s, 0.0) + p.prob
                    inv[s] = inv.get(s, 0.0) + p.prob * math.exp(-w)
                    if exact and not close(w, math.log(pref[s])):
                        bad_exact.append(dict(sample=list(s), w=w, log_p_ref=math.log(pref[s]), path_prob=p.prob))
                if bad_addr:
                    ctx.fail("Marginal.random_weighted", "random_weighted", icls, "addresses", dict(idn, n_bad=len(bad_addr), first=bad_addr[:2]))
                bad_dist = [dict(sample=list(s), impl=mass.get(s, 0.0), ref=pref.get(s, 0.0)) for s in sorted(set(mass) | set(pref), key=repr) if abs(mass.get(s, 0.0) - pref.get(s, 0.0)) > 1e-5]
                if bad_dist:
                    ctx.fail("Marginal.random_weighted", "random_weighted", icls, "sample_distribution", dict(idn, n_bad=len(bad_dist), first=bad_dist[:3]))
                bad_inv = []
                for s in sorted(mass, key=repr):
                    e_inv = inv[s] / mass[s]
                    ctx.note("conditional_expectations")
                    if not close(e_inv, 1.0 / pref[s]):
                        bad_inv.append(dict(sample=list(s), E_inv_w=e_inv, expected=1.0 / pref[s], p_ref=pref[s]))
                if bad_inv:
                    ctx.fail("Marginal.random_weighted", "random_weighted", icls, "E[1/w|s]", dict(idn, n_bad=len(bad_inv), n_samples=len(mass), first=bad_inv[:3]))
                if bad_exact:
                    ctx.fail("Marginal.random_weighted", "random_weighted", icls, "weight_exact", dict(idn, n_bad=len(bad_exact), n_paths=len(paths), first=bad_exact[:3]))
                if args == arg_alphabet[0]:
                    ctx.sample(dict(idn, closed=closed, exactness_demanded=exact, paths=len(paths), p_ref={repr(k): v for k, v in pref.items()},
                                    first_leaf=dict(prob=paths[0].prob, w=float(paths[0].result["w"]), sample=decode(alladdrs, paths[0].result["choices"]))))
                # ---------------- estimate_logpdf for every sample value
                for s in sorted(pref, key=repr):
                    jv = tuple(_val(v) for v in s)
                    try:
                        epaths, estats = seam.explore(lambda: j_el(key, jargs, js0, jv), max_paths=max_paths)
                    except seam.TreeCapped as e:
                        ctx.cap(f"estimate_logpdf {args} {s}: {e}")
                        continue
                    except Exception as e:
                        ctx.ev((pname, selname, algname, args, "el-exc", s), nontrivial=True)
                        # beartype rejects every positional model argument that is not a tuple (annotation
                        # `*args: tuple[Any, ...]`): one coarse class, independent of selection / algorithm
                        hint = "violates type hint" in str(e) and any(not isinstance(a, tuple) for a in args)
                        ctx.fail(blame(e, "Marginal.estimate_logpdf"), "estimate_logpdf", "args=non-tuple" if hint else icls.split(";")[0],
                                 f"exception:{type(e).__name__}", dict(idn, sample=list(s), msg=_plain(str(e))[:400]))
                        break
                    ctx.note("trees")
                    ctx.note("paths", len(epaths))
                    ctx.transition(len(epaths) + estats["branch_points"])
                    etot = seam.total_prob(epaths)
                    if abs(etot - 1.0) > 1e-6:
                        ctx.fail("Marginal.estimate_logpdf", "estimate_logpdf", icls, "sum_prob", dict(idn, total=etot))
                    mean, bad = 0.0, []
                    for i, p in enumerate(epaths):
                        est = float(p.result)
                        # deterministic (single-leaf) trees are non-trivial only when the value itself is checked
                        ctx.ev((pname, selname, algname, args, "el", s, i), nontrivial=(p.n_branch > 0 or exact))
                        ctx.state((pname, selname, algname, args, "el", s, round(est, 4)))
                        mean += p.prob * math.exp(est)
                        if exact and not close(est, math.log(pref[s])):
                            bad.append(dict(sample=list(s), estimate=est, log_p_ref=math.log(pref[s]), path_prob=p.prob))
                    if bad:
                        ctx.fail("Marginal.estimate_logpdf", "estimate_logpdf", icls, "estimate_exact", dict(idn, n_bad=len(bad), first=bad[:3]))
                    ctx.note("expectations")
                    if not close(mean, pref[s]):
                        ctx.fail("Marginal.estimate_logpdf", "estimate_logpdf", icls, "E[estimate]", dict(idn, sample=list(s), E_exp_estimate=mean, p_ref=pref[s]))

    return run


def cases(tier, seed):
    import os

    only = os.environ.get("VERIF_ONLY")
    names = QUICK_PROGRAMS if tier == "quick" else list(PROGRAMS)
    for pname in names:
        net = PROGRAMS[pname][1]
        for algname in ALGS[tier]:
            sels = selections(net, tier)
            if tier == "quick" and algname != "none" and len(net.addrs) >= 3:
                # with an algorithm: everything, first / last single address, the first+last pair
                keep = {"all", net.addrs[0], net.addrs[-1], f"{net.addrs[0]}+{net.addrs[-1]}"}
                sels = [x for x in sels if x[0] in keep]
            for sel in sels:
                if only and only not in f"{pname}/{algname}/{sel[0]}":
                    continue
                yield Case(f"{pname}/{algname}/{sel[0]}", _run(pname, algname, sel[0], tier, seed), dict(program=pname, algorithm=algname, selection=sel[0], addresses=list(sel[1])))
