"""C32 - Generative function closures and keyword handling are transparent.

Enumerated: base programs (static functions with 2-3 positional arguments and a keyword argument with
default, a static function calling a sub-function with keyword arguments, a distribution) x EVERY split
of the argument tuple into stored / extra arguments (gen_fn(*stored) and partial_apply(*stored)) x keyword
variants (none / explicit keyword) x ALL GFI methods (simulate, assess, importance, project, update,
edit with Update and Regenerate, under NoChange and UnknownChange tags and with changed extra
arguments).  Oracle: differential against the underlying function called with the stored arguments
prepended and the keyword arguments merged, under identical random outcomes (same decision table of
the randomness seam); handle_kwargs wrappers equal the positional call."""

from __future__ import annotations

import itertools

import jax
import jax.numpy as jnp
import numpy as np

import genjax
from genjax import ChoiceMap, Diff, Selection, Update, Regenerate
from genjax import ChoiceMapBuilder as C

from ..common import Case, close
from .. import seam
from ..harness import base_key
from ..bfs import traces_equal, _tree_close

PROPERTY = "C32"
LEVEL = "exploration"
RULE = (
    "base programs x every stored/extra split of the argument tuple x keyword variants x every GFI method x taggings / "
    "argument changes; each = closure result vs underlying function with merged arguments under identical random "
    "outcomes; distinct = (program, split, kwargs, method, variant); non-trivial = at least one stored argument or keyword"
)
ASSUMPTIONS = ["differential oracle: the underlying generative function called with the merged arguments", "comparison bit-exact for ints/bools, 1e-4 relative for floats"]
BOUNDS = {"quick": dict(programs=4), "thorough": dict(programs=6)}
JOBS = {"quick": 6, "thorough": 8}


def _programs():
    @genjax.gen
    def m2(x, y):
        a = genjax.flip(x) @ "a"
        b = genjax.flip(jnp.where(a, y, 1.0 - y)) @ "b"
        return a * 1.0 + 2.0 * b + y

    @genjax.gen
    def m3(x, y, z=0.25):
        a = genjax.flip(x) @ "a"
        v = genjax.normal(y + a, z + 0.5) @ "v"
        return v * z

    @genjax.gen
    def m4(x, z=0.25):
        # 'v' depends ONLY on the keyword argument
        a = genjax.flip(x) @ "a"
        v = genjax.normal(0.0, z + 0.5) @ "v"
        return v + a

    @genjax.gen
    def inner(p, scale=1.0):
        s = genjax.flip(p) @ "s"
        return s * scale

    @genjax.gen
    def outer(x, y):
        i = inner(x, scale=y) @ "i"
        j = genjax.bernoulli(logits=y) @ "j"
        return i + j

    progs = [
        ("m2", m2, [(0.3, 0.6), (0.6, 0.45)], {}, ["a", "b"]),
        ("m3", m3, [(0.3, 0.6, 0.25), (0.6, 0.45, 0.5)], {}, ["a", "v"]),
        ("m3kw", m3, [(0.3, 0.6), (0.6, 0.45)], {"z": 0.5}, ["a", "v"]),
        ("m4kw", m4, [(0.3,), (0.6,)], {"z": 0.5}, ["a", "v"]),
        ("outer", outer, [(0.3, 0.6), (0.6, 0.45)], {}, [("i", "s"), "j"]),
        ("normal", genjax.normal, [(0.3, 1.0), (0.6, 2.0)], {}, []),
    ]
    return progs


def _obs_tr(tr):
    # (the trace's stored arguments are not compared: partial_apply legitimately yields a function of
    # the remaining arguments only)
    return dict(score=tr.get_score(), retval=tr.get_retval(), leaves=jax.tree_util.tree_leaves(tr.get_choices()))


def _run(name, gf, alph, kwargs, addrs, tier, seed):
    def run(ctx):
        key = base_key(seed)
        args0 = tuple(jnp.asarray(a, dtype=jnp.float32) for a in alph[0])
        args1 = tuple(jnp.asarray(a, dtype=jnp.float32) for a in alph[1])
        n = len(args0)
        # the underlying call with merged arguments
        if kwargs:
            full0 = args0 + tuple(jnp.asarray(v, dtype=jnp.float32) for v in kwargs.values())
            full1 = args1 + tuple(jnp.asarray(v, dtype=jnp.float32) for v in kwargs.values())
        else:
            full0, full1 = args0, args1
        jkw = {k: jnp.asarray(v, dtype=jnp.float32) for k, v in kwargs.items()}

        def both(fa, fb, what, variant):
            """fa: reference (underlying), fb: closure; compared under identical random outcomes"""
            k = (name, what, variant)
            try:
                with seam.seam(2):
                    paths, _ = seam.explore(fa, max_paths=64)
            except Exception as e:
                ctx.note(f"underlying_raised_{type(e).__name__}")
                import os
                if os.environ.get("VERIF_DEBUG"):
                    print("UNDERLYING RAISED", what, variant, str(e)[:400])
                return
            for p in paths:
                ctx.ev(k + (repr(sorted(p.table.items()))[:120],), nontrivial=True)
                try:
                    with seam.seam(2):
                        rb = seam.run_with(fb, p.table)[0]
                except Exception as e:
                    ctx.fail("GenerativeFunctionClosure", what, variant, f"exception:{type(e).__name__}", dict(program=name, msg=str(e)[:300]))
                    return
                if not _tree_close(p.result, rb):
                    ctx.fail("GenerativeFunctionClosure", what, variant, "differs_from_underlying", dict(program=name, underlying=repr(jax.tree_util.tree_map(lambda x: np.asarray(x).tolist(), p.result))[:300], closure=repr(jax.tree_util.tree_map(lambda x: np.asarray(x).tolist(), rb))[:300]))
                    return

        # a fixed starting trace of the underlying function (default path) for the trace-consuming methods
        with seam.seam(2):
            base_tr = seam.run_with(lambda: gf.simulate(key, full0), {})[0]
        base_tr = jax.tree_util.tree_map(jnp.asarray, base_tr)  # run_with returns numpy leaves
        full_choices = base_tr.get_choices()

        for split in range(0, n + 1):
            stored0, extra0 = args0[:split], args0[split:]
            stored1, extra1 = args1[:split], args1[split:]
            makers = [("call", lambda st: gf(*st, **jkw))]
            if hasattr(gf, "partial_apply") and not kwargs:
                makers.append(("partial_apply", lambda st: gf.partial_apply(*st)))
            if kwargs:
                makers.append(("handle_kwargs", None))
            for mk_name, mk in makers:
                variant = f"{mk_name}:stored={split}/{n}:kw={'yes' if kwargs else 'no'}"
                if mk_name == "handle_kwargs":
                    if split != 0:
                        continue
                    cl = gf.handle_kwargs()
                    e0, e1 = ((args0, jkw),), ((args1, jkw),)
                    cargs0, cargs1 = (args0, jkw), (args1, jkw)
                else:
                    cl = mk(stored0)
                    cargs0, cargs1 = extra0, extra1
                # traces consumed by project / update / edit come from the wrapper itself when it is a
                # different generative function (partial_apply, handle_kwargs); a gen_fn(*stored) closure
                # produces the underlying function's own traces
                if mk_name in ("partial_apply", "handle_kwargs"):
                    with seam.seam(2):
                        cl_tr = seam.run_with(lambda: cl.simulate(key, cargs0), {})[0]
                    cl_tr = jax.tree_util.tree_map(jnp.asarray, cl_tr)
                else:
                    cl_tr = base_tr
                # simulate
                both(lambda: _obs_tr(gf.simulate(key, full0)), lambda: _obs_tr(cl.simulate(key, cargs0)), "simulate", variant)
                # assess
                both(lambda: gf.assess(full_choices, full0), lambda: cl.assess(full_choices, cargs0), "assess", variant)
                # importance with one constraint
                for a in addrs[:1] or [()]:
                    at = a if isinstance(a, tuple) else (a,)
                    v = full_choices[at] if at else full_choices.get_value()
                    chm = ChoiceMap.entry(v, *at)

                    def imp(g, ar):
                        tr, w = g.importance(key, chm, ar)
                        return dict(_obs_tr(tr), w=w)

                    both(lambda: imp(gf, full0), lambda: imp(cl, cargs0), "importance", variant)
                # project
                if addrs:
                    sel = Selection.at[addrs[0]]
                    both(lambda: gf.project(key, base_tr, sel), lambda: cl.project(key, cl_tr, sel), "project", variant)
                # update / edit
                for tags, new_full, new_c in (("nochange", full0, cargs0), ("unknown", full0, cargs0), ("unknown", full1, cargs1)):
                    if mk_name != "handle_kwargs" and new_full is full1 and split > 0:
                        # stored arguments are part of the closure: only the extra arguments can change
                        new_full = tuple(stored0) + tuple(args1[split:]) + tuple(full0[n:])
                    tag = Diff.no_change if tags == "nochange" else Diff.unknown_change
                    lab = f"{variant}:{tags}:{'same' if new_c is cargs0 else 'changed'}"
                    for a in (addrs[:1] or [()]):
                        at = a if isinstance(a, tuple) else (a,)
                        v = full_choices[at] if at else full_choices.get_value()
                        alt = jnp.logical_not(v) if v.dtype == jnp.bool_ else v + 0.5
                        chm = ChoiceMap.entry(alt, *at)

                        def upd(g, ar):
                            tr, w, rd, disc = g.update(key, base_tr if g is gf else cl_tr, chm, tag(ar))
                            return dict(_obs_tr(tr), w=w, rd=Diff.tree_primal(rd), disc=jax.tree_util.tree_leaves(disc))

                        both(lambda: upd(gf, new_full), lambda: upd(cl, new_c), "update", lab)

                        def ed(g, ar, req):
                            tr, w, rd, bwd = g.edit(key, base_tr if g is gf else cl_tr, req, tag(ar))
                            return dict(_obs_tr(tr), w=w, rd=Diff.tree_primal(rd))

                        both(lambda: ed(gf, new_full, Update(chm)), lambda: ed(cl, new_c, Update(chm)), "edit:Update", lab)
                        if addrs:
                            both(lambda: ed(gf, new_full, Regenerate(Selection.at[addrs[0]])), lambda: ed(cl, new_c, Regenerate(Selection.at[addrs[0]])), "edit:Regenerate", lab)
        # editing through a closure whose stored keyword arguments DIFFER from those the trace was made
        # with (the legal way to change them): equals the underlying edit with the merged new arguments
        if kwargs:
            jkw2 = {k: v * 2.0 for k, v in jkw.items()}
            new_full = args0 + tuple(jkw2.values())
            for split in range(0, n + 1):
                cl2 = gf(*args0[:split], **jkw2)
                extra = args0[split:]
                variant = f"call:stored={split}/{n}:kw=changed"
                for a in (addrs[:1] or [()]):
                    at = a if isinstance(a, tuple) else (a,)
                    v = full_choices[at] if at else full_choices.get_value()
                    alt = jnp.logical_not(v) if v.dtype == jnp.bool_ else v + 0.5
                    chm = ChoiceMap.entry(alt, *at)

                    def ed2(g, ar, req):
                        tr, w, rd, bwd = g.edit(key, base_tr, req, Diff.unknown_change(ar))
                        return dict(_obs_tr(tr), w=w, rd=Diff.tree_primal(rd))

                    reqs = [("edit:Update", Update(chm))]
                    if addrs:
                        reqs.append(("edit:Regenerate", Regenerate(Selection.at[addrs[0]])))
                        reqs.append(("edit:Regenerate_none", Regenerate(Selection.none())))
                    for rname, req in reqs:
                        both(lambda: ed2(gf, new_full, req), lambda: ed2(cl2, extra, req), rname, variant)
        ctx.sample(dict(program=name, splits=n + 1, kwargs=kwargs))

    return run


def cases(tier, seed):
    for name, gf, alph, kwargs, addrs in _programs():
        yield Case(name, _run(name, gf, alph, kwargs, addrs, tier, seed), dict(program=name, kwargs=kwargs))
