"""Seam extensions needed to run ADEV / VI code under the randomness seam (used by C29, C30).

1. `jax.pure_callback` has no JVP rule (it raises).  ADEV's interpreter applies the registered JVP
   rule of *every* primitive of the interpreted program, so a plain (non-ADEV) sampling site inside
   an ADEV program - e.g. the posterior approximation of PWake - cannot run under the seam.  The
   seam's callback only returns int32 *decision indices*, which have no derivative; we register the
   obviously correct rule (bind on primals, symbolic-zero tangents).  This is exactly what happens
   with the real samplers: threefry bits carry no tangent.  The seam's Normal stays
   `loc + scale * z[idx]`, i.e. differentiable in loc/scale just like TFP's sampler.

2. Two TFP distributions used by ADEV primitives are not known to the seam:
   * `Geometric` (geometric_reinforce): becomes a choice over the count alphabet K_ALPHABET
     (inputs, not probabilities - the expectation over a geometric is not enumerable).
   * `Beta` (beta_implicit): BetaIMPLICIT delegates the derivative to `jax.jvp` of TFP's sampler.
     The sampler is replaced by an explicit differentiable function of the concentrations and of a
     seam-owned u from U_ALPHABET:  x = sigmoid(log c1 - log c0 + logit(u)).  What is checked is that
     ADEV propagates *the sampler's own* pathwise derivative; TFP's implicit derivative itself is assumed.

3. small exact-expectation helpers over probability trees.
"""

from __future__ import annotations

import numpy as np
import jax
import jax.numpy as jnp
from jax.interpreters import ad
from jax._src.callback import pure_callback_p
from tensorflow_probability.substrates import jax as tfp

from . import seam

tfd = tfp.distributions

K_ALPHABET = (0.0, 2.0, 5.0)
_installed = False


def _cb_jvp(primals, tangents, **params):
    outs = pure_callback_p.bind(*primals, **params)
    return outs, [ad.Zero.from_primal_value(o) for o in outs]


def beta_transform(c1, c0, u, xp=jnp):
    z = xp.log(c1) - xp.log(c0) + xp.log(u) - xp.log(1.0 - u)
    return 1.0 / (1.0 + xp.exp(-z))



def _base_sample(self, sample_shape, seed, name, kwargs):
    # whatever is installed on the base class (the seam's patched sampler or TFP's own)
    return tfd.Distribution.sample(self, sample_shape=sample_shape, seed=seed, name=name, **kwargs)


def _geometric_sample(self, sample_shape=(), seed=None, name="sample", **kwargs):
    if not seam._S.active or seed is None or np.size(sample_shape):
        return _base_sample(self, sample_shape, seed, name, kwargs)
    n = seam._S.n_cont
    p = jnp.asarray(self.probs_parameter())
    idx = seam._callback(1, seam._key_data(seed), seam._uniform_cum(p.shape, n), p.shape)
    return jnp.asarray(K_ALPHABET[:n], dtype=self.dtype)[idx]


def _beta_sample(self, sample_shape=(), seed=None, name="sample", **kwargs):
    if not seam._S.active or seed is None or np.size(sample_shape):
        return _base_sample(self, sample_shape, seed, name, kwargs)
    n = seam._S.n_cont
    c1, c0 = jnp.broadcast_arrays(jnp.asarray(self.concentration1), jnp.asarray(self.concentration0))
    idx = seam._callback(1, seam._key_data(seed), seam._uniform_cum(c1.shape, n), c1.shape)
    u = jnp.asarray(seam.U_ALPHABET[:n], dtype=c1.dtype)[idx]
    return beta_transform(c1, c0, u)


def install():
    global _installed
    if _installed:
        return
    seam.install()
    ad.primitive_jvps[pure_callback_p] = _cb_jvp
    tfd.Geometric.sample = _geometric_sample
    tfd.Beta.sample = _beta_sample
    _installed = True


# --------------------------------------------------------------------------------------------


def explore(fn, n_cont=3, max_paths=4096):
    """Complete probability tree of fn() under the seam.  Returns (paths, total_prob)."""
    install()
    with seam.seam(n_cont=n_cont):
        paths, _ = seam.explore(fn, max_paths=max_paths)
    return paths, seam.total_prob(paths)


def table_key(path):
    return tuple(sorted((s[0], s[1], round(lo, 9), round(hi, 9)) for s, (lo, hi) in path.table.items()))


def tclose(x, y, tol):
    x = np.asarray(x, dtype=np.float64)
    y = np.asarray(y, dtype=np.float64)
    if x.shape != y.shape:
        return False
    if not (np.all(np.isfinite(x)) and np.all(np.isfinite(y))):
        return bool(np.array_equal(x, y, equal_nan=True))
    return bool(np.all(np.abs(x - y) <= tol * np.maximum(1.0, np.maximum(np.abs(x), np.abs(y)))))


def weighted_multiset_diff(lib, ref, tols, wtol=1e-5):
    """lib/ref: lists of (weight, tuple_of_floats).  Items are clustered by element-wise closeness
    (tols per tuple position); returns None when every cluster carries the same weight on both
    sides, else a description of the first disagreeing cluster."""
    clusters = []  # [rep, wl, wr]
    for side, items in ((1, lib), (2, ref)):
        for w, t in items:
            for c in clusters:
                if all(tclose(a, b, tol) for a, b, tol in zip(c[0], t, tols)):
                    c[side] += w
                    break
            else:
                c = [t, 0.0, 0.0]
                c[side] += w
                clusters.append(c)
    for rep, wl, wr in clusters:
        if abs(wl - wr) > wtol:
            return dict(item=[float(np.asarray(x).reshape(-1)[0]) if np.size(x) == 1 else np.asarray(x).tolist() for x in rep],
                        weight_library=wl, weight_reference=wr)
    return None
